/* C mirror of one policy's statics and of the records the policy facets read
 * (fast_perfect_hash.hpp, vptr_vector.hpp, policies/core.hpp).
 * One translation unit = one policy instantiation: the statics are globals. */
#ifndef YV_POLICY_H
#define YV_POLICY_H
#include "yv.h"

#ifndef NCLS
#define NCLS 16           /* classes in the arena (object-size bound) */
#endif
#define NIDS 4            /* id slots per class; the count is a 2-bit field: every bit pattern is a valid class */
#ifndef BCAP
#define BCAP 512          /* capacity of bucket / vptr vectors (object-size bound) */
#endif

/* runtime class as seen by hash_initialize / publish_vptrs:
 * type_id_begin()/end() range and vptr()/indirect_vptr() accessors */
typedef struct yv_class {
    type_id ids[NIDS];
    unsigned nids : 2;
    uintptr_t **static_vptr;
    uintptr_t yv_pad[2];      /* sizeof == 64: pointer differences / alignment facts are shifts, not divisions */
} yv_class;
_Static_assert(sizeof(yv_class) == 64, "yv_class is 64 bytes");
#define TYPE_ID_BEGIN(it) (&(it)->ids[0])
#define TYPE_ID_END(it) (&(it)->ids[0] + (it)->nids)
#define CLASS_VPTR(it) ((const uintptr_t *)*(it)->static_vptr)
#define CLASS_INDIRECT_VPTR(it) ((const uintptr_t *const *)(it)->static_vptr)

YV_VEC(type_id, vec_tid);
YV_VEC(const uintptr_t *, vec_vptr);
YV_VEC(const uintptr_t *const *, vec_ivptr);

/* fast_perfect_hash statics */
// statics are defined by the unit (grouped in one object)


/* error records (policies/core.hpp:96-128) */
typedef struct { size_t attempts; size_t buckets; } hash_search_error;
enum { unknown_class_error_update = 1, unknown_class_error_call = 2 };
typedef struct { int context; type_id type; } unknown_class_error;
typedef struct { type_id type; } method_table_error;
#define YV_ERR_HASH_SEARCH 3
#define YV_ERR_UNKNOWN_CLASS 2
#define YV_ERR_METHOD_TABLE 4
#define YV_ERRKIND(e) _Generic((e), hash_search_error: YV_ERR_HASH_SEARCH, \
    unknown_class_error: YV_ERR_UNKNOWN_CLASS, method_table_error: YV_ERR_METHOD_TABLE)

/* ghost log of Policy::error invocations */



void yv_policy_error(int kind, const void *e);
#define YV_POLICY_ERROR(e) yv_policy_error(YV_ERRKIND(e), &(e))
#ifndef YV_HAS_ERROR_HANDLER
#define YV_HAS_ERROR_HANDLER 1
#endif

#ifdef YV_CBMC
#ifndef YV_AT_ABORT
#define YV_AT_ABORT
#endif
/* process ends: obligations of the abort point (YV_AT_ABORT) are checked first */
#define yv_abort() do { g_aborted = 1; YV_AT_ABORT; __CPROVER_assume(0); } while (0)
#else
#include <stdlib.h>
#define yv_abort() abort()
#endif
#endif
