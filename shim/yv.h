/* C prelude shared by every extracted unit.
 *
 * YV_CBMC defined  : compiled by goto-cc, contracts are live.
 * YV_CBMC undefined: compiled natively (gcc) for the conformance run; contract
 *                    clauses vanish, ghost helpers become executable shims.
 */
#ifndef YV_H
#define YV_H

#include <stddef.h>
#include <stdint.h>
#include <stdbool.h>

#ifndef YV_CBMC
#include <assert.h>
#include <stdlib.h>
#define __CPROVER_requires(...)
#define __CPROVER_ensures(...)
#define __CPROVER_assigns(...)
#define __CPROVER_loop_invariant(...)
#define __CPROVER_decreases(...)
#define __CPROVER_assert(c, msg) assert(c)
#define __CPROVER_assume(c) do { if (!(c)) abort(); } while (0)
#define __CPROVER_cover(c) ((void)0)
#define YV_GHOST(...)
#else
#define YV_GHOST(...) __VA_ARGS__
#endif

/* cover goals (vacuity guard): DFCC drops __CPROVER_cover, so a second build
 * with -DYV_COVER turns each goal into an assertion that must FAIL. */
#if defined(YV_CBMC) && defined(YV_COVER)
#define YV_COVER(c, name) __CPROVER_assert(!(c), "YVCOVER " name)
#else
#define YV_COVER(c, name) ((void)0)
#endif

#define YV_MIN(a, b) ((b) < (a) ? (b) : (a))   /* std::min: returns a unless b < a */
#define YV_MAX(a, b) ((a) < (b) ? (b) : (a))   /* std::max: returns a unless a < b */

typedef uintptr_t type_id;

/* ---- class_* abstraction ------------------------------------------------
 * generic_compiler::class_* values are abstracted to an opaque word: the
 * extracted functions only compare them (==, !=) and ask membership in the
 * pointee's covariant_classes set.  The universe is all of size_t. */
typedef size_t class_ref;

#ifdef YV_CBMC
_Bool __CPROVER_uninterpreted_cov(class_ref owner, class_ref x);
#define COV(owner, x) __CPROVER_uninterpreted_cov((owner), (x))
#else
extern _Bool yv_cov(class_ref owner, class_ref x);
#define COV(owner, x) yv_cov((owner), (x))
#endif

/* ---- std::vector<T> as {data, n} ---------------------------------------- */
#define YV_VEC(T, name) typedef struct { T *data; size_t n; } name
YV_VEC(class_ref, vec_class);
#define VEC_BEGIN(v) (&(v).data[0])
#define VEC_END(v) (&(v).data[0] + (v).n)
#define VEC_SIZE(v) ((v).n)

#define YV_MAX_ARITY 16   /* = resolution_error::max_types */

/* generic_compiler::definition (compiler.hpp:132) - fields the units read */
typedef struct definition {
    const void *info;
    vec_class vp;
    uintptr_t pf;
    size_t method_index, spec_index;
} definition;

/* ---- nondet ---------------------------------------------------------------- */
#ifdef YV_CBMC
size_t nondet_size_t(void);
uintptr_t nondet_uintptr(void);
_Bool nondet_bool(void);
int nondet_int(void);
#endif

/* expand X(k) for k = 0..15 */
#define YV_REP16(X) X(0) X(1) X(2) X(3) X(4) X(5) X(6) X(7) X(8) X(9) X(10) \
    X(11) X(12) X(13) X(14) X(15)

#endif
