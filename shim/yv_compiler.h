/* C mirrors of the generic_compiler records the extracted fragments touch
 * (compiler.hpp:86-173, detail.hpp:179-188, policies/core.hpp:52-60).
 * Only the fields the fragments read or write are present. */
#ifndef YV_COMPILER_H
#define YV_COMPILER_H
#include "yv.h"

#ifndef NC
#define NC 4          /* capacity of the definition vectors in bounded units */
#endif

typedef struct definition_info {
    void **next;      /* definition's `next` variable, or null */
    void *pf;
} definition_info;

typedef struct method_info {
    void *ambiguous;
    void *not_implemented;
    size_t *slots_strides_ptr;
    type_id *vp_begin, *vp_end;
} method_info;

#undef YV_DEFINITION_INFO_T
/* definition.info is a const definition_info* in these units */
typedef struct cdefinition {
    const definition_info *info;
    vec_class vp;
    uintptr_t pf;
    size_t method_index, spec_index;
} cdefinition;

/* std::vector<const definition*> with inline storage */
typedef struct { const cdefinition *data[NC + 1]; size_t n; } vec_defp;
/* std::vector<definition> */
typedef struct { cdefinition *data; size_t n; } vec_def;

typedef struct update_method_report {
    size_t cells, concrete_cells, not_implemented, concrete_not_implemented,
        ambiguous, concrete_ambiguous;
} update_method_report;

typedef struct cmethod {
    method_info *info;
    vec_def specs;
    vec_defp dispatch_table;
    cdefinition not_implemented, ambiguous;
    update_method_report report;
} cmethod;

typedef struct cgroup { _Bool has_concrete_classes; } cgroup;

/* [vector.modifiers] */
static inline const cdefinition **vec_defp_erase(vec_defp *v, const cdefinition **pos)
{
    size_t k = (size_t)(pos - &v->data[0]);
    __CPROVER_assert(k < v->n, "erase: iterator is dereferenceable");
    for (size_t j = k; j + 1 < v->n; ++j)
        v->data[j] = v->data[j + 1];
    --v->n;
    return &v->data[0] + k;
}

static inline void vec_defp_push_back(vec_defp *v, const cdefinition *x)
{
    __CPROVER_assert(v->n < NC + 1, "push_back: shim capacity");
    v->data[v->n++] = x;
}
#endif
