"""property id -> units and reporting metadata"""
from units import specificity

PROPS = {
    'C03': {
        'units': [specificity.jobs],
        'level': 'proof',
        'unverified': [],
        'assumptions': [],
    },
}
