"""property id -> units and reporting metadata"""
from units import specificity, best, fragments

PROPS = {
    'C03': {
        'units': [specificity.jobs, best.jobs, fragments.jobs],
        'level': 'proof',
        'unverified': [],
        'assumptions': [],
    },
    'C17': {
        'units': [fragments.jobs],
        'level': 'proof',
        'unverified': [],
        'assumptions': [],
    },
}
