"""property id -> units and reporting metadata (single source for MANIFEST.json)"""
from units import (augment, specificity, best, fragments, static_list, hashing, vptrs, resolve, generator, handlers,
                   virtual_ptr, deferred, slots, install, best_proof, codec, tables, methods, phases)

A_TABLES = ('compiler::build_dispatch_tables / build_dispatch_table (grouping of classes by applicability mask, stride products, recursion order, '
            'v-table entry filling) are checked BOUNDED only (units/tables: concrete registries of <= 4 classes, one method of arity <= 3, <= 4 definitions, run together '
            'with best / is_more_specific / is_base / accumulate against an oracle written from C01 / C02 / C03 / C17): I_table - "the cell selected by the argument '
            'classes\' v-table entries is the definition C01 asks for" - is established for those registries, not proved in general')
A_AUGMENT = ('compiler::augment_classes / calculate_covariant_classes are checked BOUNDED only (units/augment: every DAG of <= 4 classes x 6 ways of presenting it), '
             'augment_methods on 9 concrete registries (units/methods): in the proofs cov is an arbitrary relation with the stated order axioms')
A_INSTALL = ('compiler::install_gv (copy of tables / v-tables / slots and strides into the policy\'s dispatch data) is checked BOUNDED only '
             '(units/install: concrete registry shapes): the layout invariant I_layout the resolve proofs assume is established for those shapes, not proved in general')

NOT_APPLICABLE = {
    'C11': 'argument adjustment is static_cast / dynamic_cast / std::forward / shared_ptr ownership in thunk templates: '
           'C++ language semantics with no body in the verifier\'s language (DESIGN.md section 7)',
    'C14': 'policy isolation is the identity of template static data members and mp11 rebind/replace/remove; in the C extraction '
           'a policy\'s statics are one set of globals by construction, so no contract can confirm or refute sharing (DESIGN.md section 7)',
    'C19': 'name extraction is std::regex and std::string / std::set iterator code writing to an ostream; outside the C subset '
           '(a bounded stand-in was considered and not built) (DESIGN.md section 7)',
    'C20': 'pure template metaprogramming (mp_product, aggregate splitting); nothing executes at run time except add_function (DESIGN.md section 7)',
}

T_SHAPES = ('partial evaluator instantiating the resolve / handler templates per signature shape and facet set; '
            'loop-free CBMC proof per configuration')

PROPS = {
    'C01': {
        'units': [specificity.jobs, best.jobs, best_proof.jobs, fragments.jobs, tables.jobs, hashing.jobs, vptrs.jobs, resolve.jobs, slots.jobs, install.jobs, phases.jobs],
        'level': 'proof',
        'technique': 'CBMC/DFCC function + loop contracts on extracted is_more_specific; ' + T_SHAPES +
                     ' for method::resolve*; contracts on the v-table pointer lookups; loop-boundary decomposition proof of best(); bounded CBMC on the cell step, install_gv and slot allocation',
        'level_text': 'The documented ordering (is_more_specific) is proved for every class graph and arity <= 16. For every signature shape over '
                      '{virtual_, virtual_ptr, non-virtual} up to length 4 (thorough: 5) and every facet set, the real resolve templates - instantiated '
                      'by a partial evaluator - are proved to return exactly the cell selected by the groups of the virtual arguments, given the installed '
                      'layout. dynamic_vptr / publish_vptrs (vector with and without hash, map) deliver the dynamic class\'s v-table pointer. best() is proved for any number of candidates (inductive obligations over a '
                      'Skolem vector); the cell-filling step, install_gv and slot allocation are checked bounded. The whole table construction (build_dispatch_tables + build_dispatch_table + best + is_more_specific + is_base + accumulate, real bodies together) is run on concrete registries (<= 4 classes, arity <= 3, <= 4 definitions in sampled orders) and compared cell by cell, next by next and flag by flag with an oracle written from the property statements (bounded).',
        'level_note': 'that update builds dispatch tables satisfying I_table (build_dispatch_tables) is checked on concrete registries only (units/tables), not proved; install_gv (I_layout) is bounded only; '
                      'bounded parts are not proofs; STL semantics trusted',
        'design_ref': 'DESIGN.md section 6 C01',
        'unverified': [A_TABLES, A_AUGMENT, A_INSTALL],
        'assumptions': [],
    },
    'C02': {
        'units': [handlers.jobs, fragments.jobs, tables.jobs, specificity.jobs, best.jobs, best_proof.jobs],
        'level': 'proof',
        'technique': T_SHAPES + ' for not_implemented_handler / ambiguous_handler / get_tip / collect_tip; contract on the deprecated call-error forwarder; '
                     'is_more_specific / best() proofs decide when a call is unresolvable; bounded cell step',
        'level_text': 'For every signature shape (length <= 4, thorough 5, plus 17- and 18-parameter signatures for the max_types clamp) both handlers are proved to '
                      'call the policy\'s error handler exactly once with the right status, arity = number of virtual parameters and the dynamic type ids of exactly the '
                      'virtual arguments in order, and never to return (abort follows). The deprecated forwarder passes the same data to call_error. The cell step puts '
                      'the method\'s own error entries into unresolvable cells (bounded). The whole table construction (build_dispatch_tables + build_dispatch_table + best + is_more_specific + is_base + accumulate, real bodies together) is run on concrete registries (<= 4 classes, arity <= 3, <= 4 definitions in sampled orders) and compared cell by cell, next by next and flag by flag with an oracle written from the property statements (bounded).',
        'level_note': 'propagation of an exception thrown by the handler through operator() is C++ semantics outside the extracted code; table construction checked on concrete registries only (units/tables)',
        'design_ref': 'DESIGN.md section 6 C02',
        'unverified': [A_TABLES, 'exception propagation when the handler throws (no try / catch / noexcept on the path - not checked mechanically)'],
        'assumptions': [],
    },
    'C03': {
        'units': [specificity.jobs, best.jobs, best_proof.jobs, fragments.jobs, tables.jobs],
        'level': 'proof',
        'technique': 'CBMC/DFCC function + loop contracts on extracted is_base / is_more_specific (unbounded class universe); '
                     'loop-boundary decomposition proof of best() (any number of candidates) cross-checked by a bounded run; bounded CBMC on the next-selection fragment',
        'level_text': 'is_base and is_more_specific (real bodies, extracted each run) are proved against the statement\'s '
                      'definitions of "strictly more general" and "more specific" for all class graphs (uninterpreted cov) and arity <= 16 by loop '
                      'invariants; best() is proved against P1-P4 for any number of candidates (inductive obligations per loop segment, Skolem vector) and cross-checked '
                      'bounded (<= 4/5 candidates, all orders); the fragment of build_dispatch_tables that selects and stores next is checked '
                      'bounded (<= 3/4 definitions, all relations, stale prior values of next). The whole table construction (build_dispatch_tables + build_dispatch_table + best + is_more_specific + is_base + accumulate, real bodies together) is run on concrete registries (<= 4 classes, arity <= 3, <= 4 definitions in sampled orders) and compared cell by cell, next by next and flag by flag with an oracle written from the property statements (bounded).',
        'level_note': 'bounded parts are not proofs; std::vector / <algorithm> semantics trusted; that update reaches the fragment for every method '
                      'and that macros.hpp passes the right next variable to add_function is not covered',
        'design_ref': 'DESIGN.md section 6 C03',
        'unverified': [A_AUGMENT, 'macros.hpp / add_function plumbing of the next variable'],
        'assumptions': [],
    },
    'C04': {
        'units': [slots.jobs, resolve.jobs, vptrs.jobs, install.jobs, augment.jobs, methods.jobs],
        'level': 'proof',
        'technique': T_SHAPES + ' with bounds / pointer checks and a checked word-to-pointer shim for every read of the call path; '
                     'bounded CBMC over every inheritance DAG for assign_slots / assign_tree_slots / assign_lattice_slots',
        'level_text': 'Every read of every resolve configuration (and of dynamic_vptr) is proved to stay inside the policy\'s dispatch data / v-table pointer vector '
                      '(CBMC bounds and pointer obligations; a v-table word used as an address must address a dispatch-data cell). Slot allocation is checked '
                      'bounded over EVERY inheritance DAG of <= 3/4 classes in every registration order: two (method, parameter) pairs that accept a class never '
                      'share a cell of its v-table and every cell lies inside it.',
        'level_note': 'slot allocation is bounded, not proved, and takes the lattice data (transitive bases = all proper ancestors) that units/augment checks augment_classes to produce for every '
                      'presentation of the same graph (bounded); sizing and filling of the dispatch data (install_gv) is checked on concrete registry shapes (bounded)',
        'design_ref': 'DESIGN.md section 6 C04',
        'unverified': [A_INSTALL, A_AUGMENT, 'unordered_set iteration order in assign_lattice_slots: one order explored'],
        'assumptions': [],
    },
    'C05': {
        'units': [hashing.jobs, vptrs.jobs],
        'level': 'proof',
        'technique': 'hash search cut at its loop boundaries into loop-free inductive obligations (base / step / exit) over a Skolem id and a Skolem bucket, CBMC; '
                     'DFCC contracts on lookups and wrappers; bit-precise lemmas for the multiply-shift; bounded whole-function run',
        'level_text': 'For ANY number of buckets and any prior value of the statics that survive between updates, with the RNG nondeterministic: if hash_initialize returns, '
                      'every registered id sits in the bucket its hash selects (hence distinct ids get distinct indexes), inside the table and <= hash_max < hash_length; '
                      'otherwise a hash_search_error is reported and it does not return. The checked wrapper sizes the control table to hash_length, the checked lookup '
                      'returns only for ids that pass the range / identity test, and (lemma) those are registered ids. publish_vptrs stores each class\'s v-table pointer '
                      '(and its address) at the index of every one of its ids, all four facet combinations.',
        'level_note': 'the inductive obligations are discharged per loop-free segment; their composition relies on the loop skeleton having the expected shape (checked '
                      'textually each run) and is exercised by a bounded whole-function job; multiply-shift is uninterpreted inside the obligations (lemmas L1/L2 on the '
                      'real expressions); class arena of 16 classes x <= 3 ids in the step obligations; ids == (type_id)-1 excluded',
        'design_ref': 'DESIGN.md section 6 C05',
        'unverified': ['std::default_random_engine / uniform_int_distribution (replaced by nondeterminism)'],
        'assumptions': [],
    },
    'C06': {
        'units': [best.jobs, best_proof.jobs, specificity.jobs, slots.jobs, tables.jobs],
        'level': 'proof',
        'technique': 'proof of best() against postconditions that mention only the candidate set + lemma (outcome is a function of that set), purity contracts of the comparators, '
                     'bounded CBMC on slot allocation over all class registration orders',
        'level_text': 'Order can reach dispatch through best()\'s incremental elimination and through slot / group numbering. best() is proved (any number of candidates, any order) '
                      'against postconditions that only mention the candidate set, and cross-checked for every order of <= 4/5 candidates; a lemma proves that any two results satisfying them agree on no-definition / definition / '
                      'ambiguous and on the winner. is_more_specific / is_base are proved to be pure functions of their arguments. Slot allocation is checked for every '
                      'registration order of the classes (every DAG) for the uniqueness C04 needs.',
        'level_note': 'that different group numberings and definition orders yield the same cell contents is checked on concrete registries only (units/tables: sampled definition orders against an order-free oracle); '
                      'method order inside build_dispatch_tables not covered',
        'design_ref': 'DESIGN.md section 6 C06',
        'unverified': [A_TABLES, A_AUGMENT],
        'assumptions': [],
    },
    'C07': {
        'units': [static_list.jobs, hashing.jobs, vptrs.jobs, deferred.jobs, install.jobs, phases.jobs, fragments.jobs],
        'level': 'proof',
        'technique': 'Skolem-heap contracts on the registration lists, hash / vptr obligations proved from arbitrary prior values of every surviving static, '
                     'bounded CBMC on deferred-id resolution over repeated updates and on the next-selection fragment started from arbitrary stale next values',
        'level_text': 'What survives between updates is covered piece by piece: the catalogs hold exactly the live registrations after any push / remove (proved, any length); '
                      'hash parameters, control table, vptr vector / map are re-established from ARBITRARY prior contents (stale hash_max can only enlarge the table; stale map '
                      'entries are overwritten); deferred ids are resolved exactly once over 1..3 consecutive updates (bounded layouts); every definition\'s next variable is rewritten by each update whatever value an earlier update left in it (bounded: <= 3 definitions per method).',
        'level_note': 'that the compile phase is a function of the catalogs only is not under contract; real shared-library unloading not modelled',
        'design_ref': 'DESIGN.md section 6 C07',
        'unverified': [A_TABLES, A_AUGMENT, A_INSTALL],
        'assumptions': [],
    },
    'C08': {
        'units': [augment.jobs, slots.jobs],
        'level': 'other',
        'technique': 'bounded CBMC run of the extracted augment_classes / calculate_covariant_classes on concrete inheritance graphs x concrete presentations, '
                     'against the graph itself; bounded CBMC of slot allocation over every DAG for the consumer',
        'level_text': 'For every transitively reduced labeled DAG of <= 3 classes and the 4-class DAGs with multiple and indirect inheritance (thorough: all of them), presented as '
                      'complete base lists, direct bases only, direct bases plus root ancestors, without the class itself, duplicated entries in reversed record order, and one record per base: '
                      'the reconstructed lattice is the graph - covariant(B) = B and its descendants, transitive_bases(D) = all proper ancestors, direct_bases / direct_derived the direct '
                      'relations without duplicates, one class per id. Hence every presentation yields the same compiler input; slot allocation (units/slots) then gives two parameters '
                      'applicable to a class distinct cells.',
        'level_note': 'bounded stand-in only: nothing is discharged for all graphs. Equality of dispatch / next across presentations is the composition "same lattice => same downstream input"; '
                      'the order of compiler::classes follows the first record of each class, covered by enumerating labeled graphs. type ids with several type_info objects per class '
                      '(type_index projection) not exercised',
        'design_ref': 'DESIGN.md section 6 C08',
        'unverified': ['use_classes / class_declaration metaprogram that produces the records (mp11, std::is_base_of)', 'std::unordered_map / deque / unordered_set / std::sort shims (see evidence)', A_TABLES],
        'assumptions': [],
        'explanation': 'bounded run of the real augment_classes on concrete graphs and presentations; not a proof',
    },
    'C09': {
        'units': [virtual_ptr.jobs, resolve.jobs, vptrs.jobs],
        'level': 'proof',
        'technique': 'loop-free CBMC proofs of the extracted virtual_ptr constructor / final / _vptr / copy constructors per facet set, on top of the '
                     'publish_vptrs contract; resolve proofs treat virtual_ptr and virtual_ positions alike',
        'level_text': 'For every facet set (hash none / fast / checked, direct / indirect, const-qualified class) the constructor embeds the v-table pointer published for the '
                      'pointee\'s DYNAMIC class - or, indirect, the address of that class\'s static v-table pointer variable, so the pointer follows later updates; final embeds the '
                      'static type\'s; copies copy. The resolve proofs show a virtual_ptr position and a virtual_ position reach the same cell from the same v-table pointer.',
        'level_note': 'shared_ptr flavours, make_virtual_shared, cast<>() and get/*/-> are C++ conversions outside the extracted code',
        'design_ref': 'DESIGN.md section 6 C09',
        'unverified': ['virtual_shared_ptr / make_virtual_shared / cast (templates over std::shared_ptr)'],
        'assumptions': [],
    },
    'C10': {
        'units': [deferred.jobs, vptrs.jobs, hashing.jobs, augment.jobs, methods.jobs],
        'level': 'proof',
        'technique': 'bounded CBMC on extracted resolve_static_type_ids over concrete registry layouts; publish / hash obligations quantify over every id of every class',
        'level_text': 'The flavours differ in how ids are obtained (templates, out of reach), in deferred resolution (checked bounded: every deferred id of every record is '
                      'resolved exactly once for arity 1..3, shared or distinct lists, 1..3 updates) and in one-class-many-ids (publish_vptrs and the hash are proved for every id '
                      'of every class). Class identity through Policy::type_index in augment_classes is checked bounded: every DAG of <= 4 classes registered under two ids per class '
                      '(many-to-one projection) yields one runtime class per class, known under both ids, with the same lattice.',
        'level_note': 'class identity through Policy::type_index in augment_methods is checked on one concrete registry with second ids; the deferred, augment and methods checks are bounded',
        'design_ref': 'DESIGN.md section 6 C10',
        'unverified': [A_AUGMENT, 'id acquisition templates (std_rtti, minimal_rtti, custom static_type)'],
        'assumptions': [],
    },
    'C12': {
        'units': [generator.jobs, resolve.jobs, install.jobs],
        'level': 'proof',
        'technique': T_SHAPES + ' with static offsets and runtime checks on; bounded CBMC (arity <= 8) on extracted write_static_offsets',
        'level_text': 'The consumer defines the layout: the resolve proofs read slot k at slots_strides[k] and stride k at [arity + k - 1]. write_static_offsets is checked '
                      '(arity <= 8 >= the property\'s 1..4) to emit exactly those numbers position by position. With static offsets and runtime checks the resolve templates are '
                      'proved to return the same cell when the static numbers equal the installed ones and to report a static slot / stride error, never returning, otherwise.',
        'level_note': 'that a compiler accepts the emitted text and demangle() names the method is not covered; static-offset configurations cover shapes without virtual_ptr',
        'design_ref': 'DESIGN.md section 6 C12',
        'unverified': ['compilability of the generated header', A_INSTALL],
        'assumptions': [],
    },
    'C15': {
        'units': [hashing.jobs, virtual_ptr.jobs, augment.jobs, methods.jobs],
        'level': 'proof',
        'technique': 'DFCC contract on the checked lookup + rejection lemma; loop-free proofs of the checked virtual_ptr constructor and final',
        'level_text': 'Call time: the checked hash returns only for ids that pass the range / identity test and (lemma from checked hash_initialize\'s postcondition) those are '
                      'registered; any other id is reported once as unknown_class_error with that id and the lookup does not return, before the vptr vector is read. The checked '
                      'virtual_ptr constructor reports an unregistered dynamic class on BOTH routes (lookup and exact-static-type shortcut, also with a stale static vptr); final '
                      'reports a dynamic != static mismatch as method_table_error.',
        'level_note': 'update-time diagnosis: an unregistered BASE in augment_classes is checked on one concrete registry (bounded); an unregistered method or definition parameter class in augment_methods is checked on four concrete registries (bounded); smart-pointer flavours of final not modelled',
        'design_ref': 'DESIGN.md section 6 C15',
        'unverified': [A_AUGMENT],
        'assumptions': [],
    },
    'C16': {
        'units': [resolve.jobs, vptrs.jobs, hashing.jobs, virtual_ptr.jobs, specificity.jobs],
        'level': 'proof',
        'technique': 'frame conditions: DFCC assigns() clauses, Skolem-word frame assertions and a syntactic frame check on every function of the call path; '
                     'functional postconditions make each result a function of arguments and read-only statics',
        'level_text': 'The guarantee rests on the call path being read-only. Every resolve configuration, dynamic_vptr (vector, map), both hash lookups, _vptr and the virtual_ptr '
                      'constructors are proved to write nothing but their own locals / the object under construction, and their results are functions of their arguments and the '
                      'statics they only read. Concurrent calls therefore perform no conflicting access (no data race under [intro.races]) and return the sequential answers.',
        'level_note': 'this is a proof of the sufficient condition, not an exploration of interleavings; the C++ memory model for concurrent reads and isolation from another '
                      'policy\'s update (C14, not claimed) are assumed',
        'design_ref': 'DESIGN.md section 6 C16',
        'unverified': ['C++ memory model', 'another policy\'s update touches only that policy\'s statics (C14)'],
        'assumptions': [],
    },
    'C17': {
        'units': [fragments.jobs, tables.jobs],
        'level': 'proof',
        'technique': 'CBMC/DFCC contract on extracted generic_compiler::accumulate; bounded CBMC on the extracted dim==0 step of build_dispatch_table with best() replaced by its contract',
        'level_text': 'accumulate is proved (loop-free, all values): flags count methods with a non-zero counter, cells add up. '
                      'The extracted dispatch-cell step is checked for <= 3/4 definitions, every mask / relation / prior counter value: '
                      'a gap or ambiguity is counted exactly when it occurs, the concrete variants exactly when every dimension\'s group holds a '
                      'concrete class, and the flag is threaded through the recursive call. The whole table construction (build_dispatch_tables + build_dispatch_table + best + is_more_specific + is_base + accumulate, real bodies together) is run on concrete registries (<= 4 classes, arity <= 3, <= 4 definitions in sampled orders) and compared cell by cell, next by next and flag by flag with an oracle written from the property statements (bounded).',
        'level_note': 'that cells are in bijection with tuples of class groups and dispatch_table.size() == cells is checked on concrete registries only (units/tables), with sampled abstract flags',
        'design_ref': 'DESIGN.md section 6 C17',
        'unverified': [A_TABLES, 'cells / concrete_cells products'],
        'assumptions': [],
    },
    'C18': {
        'units': [static_list.jobs],
        'level': 'proof',
        'technique': 'CBMC contracts over a Skolem heap (unbounded list length) on extracted static_list::push_back / remove / iterator++ / begin / empty and on clear() cut at its loop boundary; bounded CBMC pool companion',
        'level_text': 'push_back, remove, begin, ++ and empty (real bodies, extracted each run) are proved for lists of ANY length: the list invariant is '
                      'assumed at the nodes the loop-free operation can reach plus a Skolem position and re-established for the new sequence, with frame. '
                      'clear() (a loop over the whole list) is proved by inductive base / step obligations at an arbitrary loop position; the interplay of all operations is '
                      'cross-checked on a pool of 5/6 nodes (every list, every order, one operation)',
        'level_note': 'the composition of clear()\'s base / step obligations relies on its loop skeleton (checked textually); size() = std::distance is trusted; that the registration objects\' destructors call remove on the right catalog is not checked',
        'design_ref': 'DESIGN.md section 6 C18, 2.7',
        'unverified': ['class_declaration_aux / method / definition_info constructors and destructors calling push_back / remove (templates)', 'real dlclose timing'],
        'assumptions': [],
    },
    'C13': {
        'units': [codec.jobs, install.jobs],
        'level': 'other',
        'technique': 'bounded CBMC round trip of the extracted encoder (ostream insertions logged) and the extracted in-place decoder on concrete registry shapes, against install_gv\'s postcondition',
        'level_text': 'For each of a set of concrete registry shapes (uni- and multi-methods with error cells, a class whose v-table does not start at slot 0, classes with no v-table '
                      'entries, many classes with few methods) and arbitrary contents, the real encoder is run with its output logged, the logged numbers are laid out as the declared '
                      'structure, the real decoder is run on it, and the result is compared with what install_gv installs; every decoder access is bounds-checked against the declared structure.',
        'level_note': 'bounded stand-in only (no obligation is discharged for all registries); compilability of the emitted text is reduced to "declared sizes match what is emitted and do not wrap"',
        'design_ref': 'DESIGN.md section 6 C13',
        'unverified': ['formatting of the emitted text (hex, commas, comments), boost::core::demangle', A_TABLES],
        'assumptions': [],
        'explanation': 'bounded round trip of the real encoder and decoder on concrete registry shapes; not a proof',
    },
}
