"""property id -> units and reporting metadata (single source for MANIFEST.json)"""
from units import specificity, best, fragments, static_list, hashing, vptrs, resolve, generator, handlers, virtual_ptr, deferred

A_TABLES = ('compiler::build_dispatch_tables (grouping of classes by applicability mask, strides, recursion order) '
            'and assign_slots / assign_tree_slots / assign_lattice_slots are NOT under contract '
            '(std::map<dynamic_bitset,...>, unordered_set, recursion over containers: out of reach of the C front end)')
A_AUGMENT = ('compiler::augment_classes / calculate_covariant_classes / augment_methods are NOT under contract: '
             'cov is taken as an arbitrary relation with the stated order axioms')

NOT_APPLICABLE = {
    'C08': 'inheritance inference is an mp11 metaprogram plus unordered_map / deque / std::sort code in augment_classes; '
           'no function within CBMC\'s C subset carries the property, a rule-based C translation would be a hand model (DESIGN.md section 7)',
    'C11': 'argument adjustment is static_cast / dynamic_cast / std::forward / shared_ptr ownership in thunk templates: '
           'C++ language semantics with no body in the verifier\'s language (DESIGN.md section 7)',
    'C14': 'policy isolation is the identity of template static data members and mp11 rebind/replace/remove; in the C extraction '
           'a policy\'s statics are one struct by construction, so no contract can confirm or refute sharing (DESIGN.md section 7)',
    'C19': 'name extraction is std::regex and std::string / std::set iterator code writing to an ostream; outside the C subset '
           '(a bounded stand-in was considered and not built) (DESIGN.md section 7)',
    'C20': 'pure template metaprogramming (mp_product, aggregate splitting); nothing executes at run time except add_function (DESIGN.md section 7)',
}

PROPS = {
    'C03': {
        'units': [specificity.jobs, best.jobs, fragments.jobs],
        'level': 'proof',
        'technique': 'CBMC/DFCC function + loop contracts on extracted is_base / is_more_specific (unbounded class universe); '
                     'bounded CBMC on extracted best() and the next-selection fragment',
        'level_text': 'is_base and is_more_specific (real bodies, extracted each run) are proved against the statement\'s '
                      'definitions of "strictly more general" and "more specific" for all class graphs (uninterpreted cov) and arity <= 16 by loop '
                      'invariants; best() and the fragment of build_dispatch_tables that selects and stores next are checked '
                      'bounded (<= 4/5 candidates, <= 3/4 definitions, all relations, all orders, stale prior values of next)',
        'level_note': 'bounded parts are not proofs; std::vector / <algorithm> semantics trusted; that update reaches the fragment for every method '
                      'and that macros.hpp passes the right next variable to add_function is not covered',
        'design_ref': 'DESIGN.md section 6 C03',
        'unverified': [A_AUGMENT, 'macros.hpp / add_function plumbing of the next variable'],
        'assumptions': [],
    },
    'C17': {
        'units': [fragments.jobs],
        'level': 'proof',
        'technique': 'CBMC/DFCC contract on extracted generic_compiler::accumulate; bounded CBMC on the extracted dim==0 step of build_dispatch_table with best() replaced by its contract',
        'level_text': 'accumulate is proved (loop-free, all values): flags count methods with a non-zero counter, cells add up. '
                      'The extracted dispatch-cell step is checked for <= 3/4 definitions, every mask / relation / prior counter value: '
                      'a gap or ambiguity is counted exactly when it occurs, the concrete variants exactly when every dimension\'s group holds a '
                      'concrete class, and the flag is threaded through the recursive call',
        'level_note': 'that cells are in bijection with tuples of class groups and dispatch_table.size() == cells (recursion over std::map) is not under contract',
        'design_ref': 'DESIGN.md section 6 C17',
        'unverified': [A_TABLES, 'cells / concrete_cells products (compiler.hpp:863-890)'],
        'assumptions': [],
    },
    'C18': {
        'units': [static_list.jobs],
        'level': 'proof',
        'technique': 'CBMC contracts over a Skolem heap (unbounded list length) on extracted static_list::push_back / remove / iterator++ / begin / empty; bounded CBMC pool companion incl. clear()',
        'level_text': 'push_back, remove, begin, ++ and empty (real bodies, extracted each run) are proved for lists of ANY length: the list invariant is '
                      'assumed at the nodes the loop-free operation can reach plus a Skolem position and re-established for the new sequence, with frame. '
                      'clear() (a loop over the whole list) and the interplay of all operations are checked on a pool of 5/6 nodes (every list, every order, one operation)',
        'level_note': 'clear() is bounded only; size() = std::distance is trusted; that the registration objects\' destructors call remove on the right catalog is checked textually only',
        'design_ref': 'DESIGN.md section 6 C18, 2.7',
        'unverified': ['class_declaration_aux / method / definition_info constructors and destructors calling push_back / remove (templates)', 'real dlclose timing'],
        'assumptions': [],
    },
    'C05': {
        'units': [hashing.jobs, vptrs.jobs],
        'level': 'proof',
        'technique': 'CBMC/DFCC function and loop contracts on the extracted hash search, lookups and publish_vptrs; bit-precise lemmas for the multiply-shift',
        'level_text': 'TBD',
        'level_note': 'TBD',
        'design_ref': 'DESIGN.md section 6 C05',
        'unverified': [],
        'assumptions': [],
    },
    'C01': {
        'units': [specificity.jobs, best.jobs, fragments.jobs, hashing.jobs, vptrs.jobs, resolve.jobs],
        'level': 'proof',
        'technique': 'TBD', 'level_text': 'TBD', 'level_note': 'TBD',
        'design_ref': 'DESIGN.md section 6 C01',
        'unverified': [A_TABLES, A_AUGMENT],
        'assumptions': [],
    },
    'C12': {
        'units': [generator.jobs, resolve.jobs],
        'level': 'proof',
        'technique': 'TBD', 'level_text': 'TBD', 'level_note': 'TBD',
        'design_ref': 'DESIGN.md section 6 C12',
        'unverified': [],
        'assumptions': [],
    },
    'C02': {
        'units': [handlers.jobs, fragments.jobs],
        'level': 'proof',
        'technique': 'TBD', 'level_text': 'TBD', 'level_note': 'TBD',
        'design_ref': 'DESIGN.md section 6 C02',
        'unverified': [],
        'assumptions': [],
    },
    'C09': {
        'units': [virtual_ptr.jobs, resolve.jobs, vptrs.jobs],
        'level': 'proof',
        'technique': 'TBD', 'level_text': 'TBD', 'level_note': 'TBD',
        'design_ref': 'DESIGN.md section 6 C09',
        'unverified': [],
        'assumptions': [],
    },
    'C10': {
        'units': [deferred.jobs, vptrs.jobs, hashing.jobs],
        'level': 'proof',
        'technique': 'TBD', 'level_text': 'TBD', 'level_note': 'TBD',
        'design_ref': 'DESIGN.md section 6 C10',
        'unverified': [],
        'assumptions': [],
    },
}
