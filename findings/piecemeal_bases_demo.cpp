// defect #10: classes registered with their direct bases only (one registration per class): the compiler's
// transitive_bases(D) is then incomplete, the slot used in D for a method parameter declared in a root X is not
// reserved in D's indirect base A, and a method parameter declared in A gets the same v-table cell in D.
#include <yorel/yomm2/keywords.hpp>
#include <iostream>
struct X { virtual ~X() {} };
struct A { virtual ~A() {} };
struct B : A {};
struct D : B, X {};
register_classes(X);
register_classes(A);
register_classes(B, A);     // direct base only
register_classes(D, B, X);  // direct bases only: A is an indirect base of D
declare_method(int, fx, (virtual_<X&>));
declare_method(int, fa, (virtual_<A&>));
define_method(int, fx, (X&)) { return 10; }
define_method(int, fx, (D&)) { return 11; }
define_method(int, fa, (A&)) { return 20; }
define_method(int, fa, (D&)) { return 21; }
int main() {
    yorel::yomm2::update();
    using namespace yorel::yomm2;
    auto sx = method_class(int, fx, (virtual_<X&>))::slots_strides[0];
    auto sa = method_class(int, fa, (virtual_<A&>))::slots_strides[0];
    D d; B b; X x; A a;
    int r1 = fx(d), r2 = fa(d), r3 = fa(b), r4 = fx(x), r5 = fa(a);
    std::cout << "slot of fx in v-tables: " << sx << ", slot of fa: " << sa << "\n";
    std::cout << "fx(d)=" << r1 << " fa(d)=" << r2 << " fa(b)=" << r3 << " fx(x)=" << r4 << " fa(a)=" << r5 << "\n";
    // both parameters are applicable to D: they must not share a cell
    return (sx != sa && r1 == 11 && r2 == 21 && r3 == 20 && r4 == 10 && r5 == 20) ? 0 : 1;
}
