// defect #5: debug cross-check of generated static offsets compares the stride of the 2nd+ virtual
// parameter with the wrong cell of slots_strides for arity >= 3: CORRECT offsets are rejected.
#include <yorel/yomm2/keywords.hpp>
#include <iostream>
struct A { virtual ~A() {} };
struct B : A {};
struct C : B {};
register_classes(A, B, C);
struct m_key;
using m_method = yorel::yomm2::method<m_key, int(yorel::yomm2::virtual_<A&>, yorel::yomm2::virtual_<A&>, yorel::yomm2::virtual_<A&>)>;
#ifdef SLOTS
namespace yorel { namespace yomm2 { namespace detail {
template<> struct static_offsets<m_method> {
    static constexpr std::size_t slots[] = {SLOTS};
    static constexpr std::size_t strides[] = {STRIDES};
};
}}}
#endif
int m_aaa(A&, A&, A&) { return 1; }
int m_bbb(B&, B&, B&) { return 2; }
int m_ccc(C&, C&, C&) { return 3; }
m_method::add_function<m_aaa> r1; m_method::add_function<m_bbb> r2; m_method::add_function<m_ccc> r3;
int main() {
    yorel::yomm2::update();
    auto ss = m_method::fn.slots_strides_ptr;
    std::cout << "installed slots " << ss[0] << "," << ss[1] << "," << ss[2] << " strides " << ss[3] << "," << ss[4] << "\n";
#ifdef SLOTS
    yorel::yomm2::default_policy::error = [](const yorel::yomm2::error_type& e) {
        if (std::get_if<yorel::yomm2::static_stride_error>(&e) || std::get_if<yorel::yomm2::static_slot_error>(&e)) {
            std::cout << "static offset error reported although the static offsets equal the installed ones\n"; exit(1); }
    };
    A a; B b; C c;
    int r = m_method::fn(c, c, c) * 100 + m_method::fn(b, c, b) * 10 + m_method::fn(a, b, c);
    std::cout << "dispatch results " << r << " (expected 321)\n";
    return r == 321 ? 0 : 1;
#endif
    return 0;
}
