// defect #3: resolution_error::types holds an id per ARGUMENT (non-virtual ones included, virtual_ptr's own
// type for virtual_ptr parameters) instead of the dynamic types of exactly the virtual arguments, in order
#include <yorel/yomm2/keywords.hpp>
#include <iostream>
using namespace yorel::yomm2;
struct A { virtual ~A() {} };
struct B : A {};
register_classes(A, B);
declare_method(int, f, (int, virtual_<A&>, double, virtual_ptr<A>));
define_method(int, f, (int, B&, double, virtual_ptr<B>)) { return 1; }
int main() {
    update();
    int bad = 0;
    default_policy::error = [&bad](const error_type& e) {
        if (auto r = std::get_if<resolution_error>(&e)) {
            type_id want[2] = { (type_id)&typeid(A), (type_id)&typeid(B) };
            std::cout << "status " << r->status << " arity " << r->arity << "\n";
            for (std::size_t i = 0; i < r->arity; ++i) {
                std::cout << "  types[" << i << "] = " << reinterpret_cast<const std::type_info*>(r->types[i])->name()
                          << (r->types[i] == want[i] ? "  ok" : "  WRONG") << "\n";
                if (r->types[i] != want[i]) ++bad;
            }
            throw 0;
        }
    };
    A a; B b;
    try { f(1, a, 2.0, virtual_ptr<A>(b)); } catch (int) {}   // no definition for (A, B)
    return bad ? 1 : 0;
}
