// defect #8: deferred type ids.  (a) update() twice: the class id is "resolved" again = an integer is called as
// a function.  (b) a method with two virtual parameters: only the first parameter id is resolved.
#include <yorel/yomm2/keywords.hpp>
#include <yorel/yomm2/templates.hpp>
#include <iostream>
using namespace yorel::yomm2;
struct Animal {
    Animal(std::size_t type) : type(type) {}
    std::size_t type;
    static std::size_t last_type_id;
    static std::size_t static_type;
};
std::size_t Animal::last_type_id;
std::size_t Animal::static_type = ++Animal::last_type_id;
struct Dog : Animal { Dog() : Animal(static_type) {} static std::size_t static_type; };
std::size_t Dog::static_type = ++Animal::last_type_id;
struct custom_rtti : policy::deferred_static_rtti {
    template<typename T> static auto static_type() {
        if constexpr (std::is_base_of_v<Animal, T>) return T::static_type; else { static type_id invalid = 0; return invalid; }
    }
    template<typename T> static auto dynamic_type(const T& obj) {
        if constexpr (std::is_base_of_v<Animal, T>) return obj.type; else return 666;
    }
    template<class Stream> static void type_name(type_id type, Stream& stream) { stream << type; }
    static auto type_index(type_id type) { return type; }
};
struct test_policy : policy::default_static::rebind<test_policy>::replace<policy::rtti, custom_rtti>::remove<policy::type_hash> {};
register_classes(Animal, Dog, test_policy);
#ifdef TWO_PARAMS
declare_method(int, meet, (virtual_<Animal&>, virtual_<Animal&>), test_policy);
define_method(int, meet, (Dog&, Dog&)) { return 2; }
define_method(int, meet, (Animal&, Animal&)) { return 1; }
#else
declare_method(int, kick, (virtual_<Animal&>), test_policy);
define_method(int, kick, (Dog&)) { return 2; }
define_method(int, kick, (Animal&)) { return 1; }
#endif
int main() {
    update<test_policy>();
    std::cout << "first update done\n" << std::flush;
#ifdef TWO_PARAMS
    Dog d; Animal& a = d;
    int r = meet(a, a);
    std::cout << "meet(dog, dog) = " << r << "\n";
    return r == 2 ? 0 : 1;
#else
    update<test_policy>();
    std::cout << "second update done\n";
    Dog d; Animal& a = d;
    return kick(a) == 2 ? 0 : 1;
#endif
}
