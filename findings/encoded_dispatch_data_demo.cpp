// C13 probe: encoded dispatch data for registries with (a) a class that no method uses (empty v-table),
// (b) a lattice class whose v-table does not start at slot 0.
#include <cstdint>
#include <fstream>
#include <iostream>
#include <string>
#include <vector>
#include <yorel/yomm2/policy.hpp>
struct demo_policy : yorel::yomm2::default_policy::rebind<demo_policy> {};
#define YOMM2_DEFAULT_POLICY demo_policy
#include <yorel/yomm2/keywords.hpp>
#ifdef DECODE
#include <yorel/yomm2/decode.hpp>
#else
#include <yorel/yomm2/generator.hpp>
#endif
using namespace yorel::yomm2;
struct A { virtual ~A() {} };
struct B { virtual ~B() {} };
struct D : A, B {};
#ifdef WITH_UNUSED
struct U1 { virtual ~U1() {} }; struct U2 { virtual ~U2() {} }; struct U3 { virtual ~U3() {} };
register_classes(U1);
register_classes(U2);
register_classes(U3);
#endif
register_classes(A, B, D);
declare_method(int, fa, (virtual_<A&>));
declare_method(int, fb, (virtual_<B&>));
define_method(int, fa, (A&)) { return 1; }
define_method(int, fa, (D&)) { return 2; }
define_method(int, fb, (B&)) { return 3; }
define_method(int, fb, (D&)) { return 4; }
static std::vector<int> calls() { A a; B b; D d; return { fa(a), fa(d), fb(b), fb(d) }; }
#ifndef DECODE
int main() {
    auto compiler = update();
    for (auto& c : compiler.classes) std::cout << "class first_slot=" << c.first_slot << " vtbl.size=" << c.vtbl.size() << "\n";
    { std::ofstream t("tables.hpp"); generator::encode_dispatch_data(compiler, t); }
    std::ofstream e("expected.hpp"); for (auto r : calls()) e << r << ",\n";
    return 0;
}
#else
int main() {
#include "tables.hpp"
    std::cout << "sizeof vtbls (words) = " << sizeof(yomm2_dispatch_data.vtbls) / 8 << ", headroom = " << sizeof(yomm2_dispatch_data.encoded.headroom) / 2 << "\n";
    const std::vector<int> expected = {
#include "expected.hpp"
    };
    auto got = calls(); int bad = 0;
    for (size_t i = 0; i < got.size(); ++i) if (got[i] != expected[i]) { std::cout << "call " << i << ": after update " << expected[i] << ", after decode " << got[i] << "\n"; ++bad; }
    std::cout << (bad ? "MISMATCH\n" : "same as after update\n");
    return bad ? 1 : 0;
}
#endif
