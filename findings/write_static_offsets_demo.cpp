// defect #4: generator::write_static_offsets reads slots_strides as if slots and strides were interleaved,
// update() installs all slots, then all strides: wrong numbers for arity >= 3.
#include <yorel/yomm2/keywords.hpp>
#include <yorel/yomm2/generator.hpp>
#include <iostream>
#include <sstream>
struct A { virtual ~A() {} };
struct B : A {};
struct C : B {};
register_classes(A, B, C);
struct m_key;
using m_method = yorel::yomm2::method<m_key, int(yorel::yomm2::virtual_<A&>, yorel::yomm2::virtual_<A&>, yorel::yomm2::virtual_<A&>)>;
int m_aaa(A&, A&, A&) { return 1; }
int m_bbb(B&, B&, B&) { return 2; }
int m_ccc(C&, C&, C&) { return 3; }
m_method::add_function<m_aaa> r1; m_method::add_function<m_bbb> r2; m_method::add_function<m_ccc> r3;
int main() {
    yorel::yomm2::update();
    auto ss = m_method::fn.slots_strides_ptr;
    std::ostringstream expected, os;
    expected << "slots[] = {" << ss[0] << ", " << ss[1] << ", " << ss[2] << "}; static constexpr std::size_t strides[] = {" << ss[3] << ", " << ss[4] << "}";
    yorel::yomm2::generator().write_static_offsets<m_method>(os);
    std::cout << "generated: " << os.str() << "installed: " << expected.str() << "\n";
    return os.str().find(expected.str()) != std::string::npos ? 0 : 1;
}
