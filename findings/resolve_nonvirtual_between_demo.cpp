// defect #1: a non-virtual parameter between two virtual ones: the last virtual argument is ignored
#include <yorel/yomm2/keywords.hpp>
#include <iostream>
struct A { virtual ~A() {} };
struct B : A {};
register_classes(A, B);
declare_method(int, f, (virtual_<A&>, int, virtual_<A&>));
define_method(int, f, (A&, int, A&)) { return 1; }
define_method(int, f, (A&, int, B&)) { return 2; }
define_method(int, f, (B&, int, A&)) { return 3; }
define_method(int, f, (B&, int, B&)) { return 4; }
declare_method(int, g, (virtual_<A&>, int, double, virtual_<A&>, char, virtual_<A&>, int));
define_method(int, g, (A&, int, double, A&, char, A&, int)) { return 1; }
define_method(int, g, (B&, int, double, B&, char, B&, int)) { return 8; }
define_method(int, g, (A&, int, double, A&, char, B&, int)) { return 2; }
int main() {
    yorel::yomm2::update();
    A a; B b;
    int r[4] = { f(a, 0, a), f(a, 0, b), f(b, 0, a), f(b, 0, b) };
    std::cout << r[0] << r[1] << r[2] << r[3] << " (expected 1234)\n";
    int s[3] = { g(a, 0, 0., a, 'x', a, 0), g(a, 0, 0., a, 'x', b, 0), g(b, 0, 0., b, 'x', b, 0) };
    std::cout << s[0] << s[1] << s[2] << " (expected 128)\n";
    return r[0] == 1 && r[1] == 2 && r[2] == 3 && r[3] == 4 && s[0] == 1 && s[1] == 2 && s[2] == 8 ? 0 : 1;
}
