// defect #2: best() under MI, order-dependent and returns a non-dominating single result
#include <yorel/yomm2/keywords.hpp>
#include <iostream>
struct R1 { virtual ~R1() {} };
struct X : virtual R1 {};
struct X2 : X {};
struct Xp : virtual R1 {};
struct T : X2, Xp {};
struct Y3 { virtual ~Y3() {} };
struct Y2 : Y3 {};
struct Y1 : Y2 {};
register_classes(R1, X, X2, Xp, T, Y3, Y2, Y1);
declare_method(int, m, (virtual_<R1&>, virtual_<Y3&>));
#ifdef ORDER_ABC
define_method(int, m, (X& , Y1&)) { return 1; }   // a
define_method(int, m, (Xp&, Y2&)) { return 2; }   // b
define_method(int, m, (X2&, Y3&)) { return 3; }   // c
#else
define_method(int, m, (X2&, Y3&)) { return 3; }   // c
define_method(int, m, (Xp&, Y2&)) { return 2; }   // b
define_method(int, m, (X& , Y1&)) { return 1; }   // a
#endif
int main() {
    yorel::yomm2::update();
    yorel::yomm2::default_policy::error = [](const yorel::yomm2::error_type& e) {
        if (auto r = std::get_if<yorel::yomm2::resolution_error>(&e)) { std::cout << "error status " << r->status << "\n"; exit(0); }
    };
    T t; Y1 y;
    std::cout << "m(T, Y1) runs definition " << m(t, y) << "\n";
    return 1;
}
