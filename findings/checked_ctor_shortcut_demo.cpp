// defect #6: checked (debug) policy: virtual_ptr built from an object whose class was never registered, through a
// reference of exactly that class, is not reported: the static-type shortcut copies a null static v-table pointer
#include <yorel/yomm2/keywords.hpp>
#include <iostream>
using namespace yorel::yomm2;
struct A { virtual ~A() {} };
struct B : A {};
struct U : A {};                 // never registered
register_classes(A, B);
declare_method(int, f, (virtual_ptr<A>));
define_method(int, f, (virtual_ptr<A>)) { return 1; }
int main() {
    update();
    bool reported = false;
    default_policy::error = [&reported](const error_type& e) {
        if (auto u = std::get_if<unknown_class_error>(&e)) {
            reported = u->type == (type_id)&typeid(U);
            throw 0;
        }
    };
    U u;
    // route 1: from a base reference (dynamic lookup): reported
    try { A& ra = u; virtual_ptr<A> p(ra); std::cout << "route base-reference: NOT reported\n"; } catch (int) { std::cout << "route base-reference: reported=" << reported << "\n"; }
    // route 2: from a reference of exactly the unregistered class (static-type shortcut)
    reported = false;
    try {
        virtual_ptr<U> p(u);
        std::cout << "route exact-type: NOT reported, _vptr() = " << (const void*)p._vptr() << "\n";
        return 1;
    } catch (int) { std::cout << "route exact-type: reported=" << reported << "\n"; }
    return reported ? 0 : 1;
}
