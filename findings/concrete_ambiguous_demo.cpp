// defect #7: update report counts a concrete ambiguity for a tuple containing an abstract-only class
#include <yorel/yomm2/keywords.hpp>
#include <iostream>
struct X { virtual ~X() {} };
struct XB : X { virtual void pure() = 0; };   // abstract, no concrete subclass registered
struct Y { virtual ~Y() {} };
struct YB : Y {};
register_classes(X, XB, Y, YB);
declare_method(int, m, (virtual_<X&>, virtual_<Y&>));
define_method(int, m, (XB&, Y&)) { return 1; }
define_method(int, m, (X&, YB&)) { return 2; }
int main() {
    auto compiler = yorel::yomm2::update();
    auto& r = compiler.report;
    std::cout << "ambiguous=" << r.ambiguous << " concrete_ambiguous=" << r.concrete_ambiguous
              << " not_implemented=" << r.not_implemented << " concrete_not_implemented=" << r.concrete_not_implemented << "\n";
    // the only ambiguous tuple is (XB, YB); XB is abstract => no tuple of concrete classes is ambiguous
    return r.ambiguous == 1 && r.concrete_ambiguous == 0 ? 0 : 1;
}
