"""goto-cc -> goto-instrument (DFCC) -> cbmc pipeline for one job; JSON parsing.

Status vocabulary returned to the caller:
  ok          every obligation SUCCESS
  failed      some obligation FAILURE (counterexample available)
  undecided   timeout / OOM / tool error / parse problem  (exit 2 upstream)
"""
import json
import os
import re
import resource
import subprocess
import time

MEM_LIMIT = int(os.environ.get("YV_MEM_GB", "14")) * 1024 ** 3


def _limits():
    resource.setrlimit(resource.RLIMIT_AS, (MEM_LIMIT, MEM_LIMIT))


def run(cmd, cwd, timeout, log):
    t0 = time.time()
    try:
        p = subprocess.run(cmd, cwd=cwd, timeout=timeout, preexec_fn=_limits,
                           stdout=subprocess.PIPE, stderr=subprocess.PIPE)
        rc, out, err = p.returncode, p.stdout, p.stderr
    except subprocess.TimeoutExpired as e:
        rc, out, err = -999, e.stdout or b'', (e.stderr or b'') + b'\nTIMEOUT'
    dt = time.time() - t0
    with open(log, 'ab') as f:
        f.write(('$ %s\n' % ' '.join(cmd)).encode())
        f.write(out[-2000000:])
        f.write(err[-200000:])
        f.write(('\n[rc=%s %.1fs]\n' % (rc, dt)).encode())
    return rc, out.decode(errors='replace'), err.decode(errors='replace'), dt


DEFAULT_CHECKS = ['--bounds-check', '--pointer-check', '--div-by-zero-check',
                  '--signed-overflow-check', '--undefined-shift-check',
                  ]


class JobResult:
    def __init__(self, job):
        self.job = job
        self.status = 'undecided'
        self.reason = ''
        self.obligations = []     # dicts: name, description, status, line
        self.failed = []          # subset with status FAILURE
        self.traces = {}          # obligation name -> list of assignments
        self.cover_total = 0
        self.cover_hit = 0
        self.cover_missed = []
        self.solver_s = 0.0
        self.wall_s = 0.0
        self.backend = ''
        self.cmds = []
        self.loop_obligations = 0
        self.raw_tail = ''


def _parse_json_stream(out):
    try:
        return json.loads(out)
    except Exception:
        # cbmc may be killed mid-stream; try to salvage
        m = out.rfind('\n}')
        try:
            return json.loads(out[:m + 2] + '\n]')
        except Exception:
            return None


def build(job, workdir, extra_defines=()):
    """compile + instrument; returns (ok, reason, cmds, binary)."""
    os.makedirs(workdir, exist_ok=True)
    log = os.path.join(workdir, 'log.txt')
    open(log, 'w').close()
    src = os.path.join(workdir, 'unit.c')
    with open(src, 'w') as f:
        f.write(job.c_text)
    cmds = []
    cc = ['goto-cc', '--function', job.entry, '-I', job.shim_dir,
          '-DYV_CBMC=1'] + ['-D' + d for d in list(job.defines) + list(extra_defines)] + \
         ['unit.c', '-o', 'a.gb']
    rc, out, err, dt = run(cc, workdir, 120, log)
    for attempt in range(2):
        # killed by a signal / no diagnostic at all: resource pressure on a loaded machine, not a property of the text
        if rc != 0 and not (err or out).strip():
            time.sleep(2 + 3 * attempt)
            rc, out, err, dt = run(cc, workdir, 120, log)
    cmds.append(' '.join(cc))
    if rc != 0:
        return False, 'goto-cc failed (rc=%s): ' % rc + (err or out)[-600:], cmds, None
    binary = 'a.gb'
    if job.enforce or job.replace or job.loop_contracts:
        gi = ['goto-instrument', '--dfcc', job.entry]
        if job.enforce:
            gi += ['--enforce-contract', job.enforce]
        for r in job.replace:
            gi += ['--replace-call-with-contract', r]
        if job.loop_contracts:
            gi += ['--apply-loop-contracts']
        gi += ['a.gb', 'b.gb']
        rc, out, err, dt = run(gi, workdir, 300, log)
        cmds.append(' '.join(gi))
        if rc != 0:
            return False, 'goto-instrument failed: ' + (out + err)[-900:], cmds, None
        binary = 'b.gb'
    return True, '', cmds, binary


def cbmc_flags(job):
    fl = list(DEFAULT_CHECKS)
    if job.unsigned_overflow_check:
        fl.append('--unsigned-overflow-check')
    for f in job.drop_flags:
        if f in fl:
            fl.remove(f)
    if job.unwind is not None:
        fl += ['--unwind', str(job.unwind)]
        if getattr(job, 'no_unwinding_assertions', False):
            fl += ['--no-unwinding-assertions']
        else:
            fl += ['--unwinding-assertions']
    if job.object_bits:
        fl += ['--object-bits', str(job.object_bits)]
    fl += job.cbmc_extra
    if '--no-standard-checks' in fl:      # must precede the explicit check flags it would otherwise switch off
        fl.remove('--no-standard-checks')
        fl.insert(0, '--no-standard-checks')
    return fl


def verify(job, workdir, backend_flags=()):
    res = JobResult(job)
    t0 = time.time()
    log = os.path.join(workdir, 'log.txt')
    ok, reason, cmds, binary = build(job, workdir)
    res.cmds = cmds
    if not ok:
        res.reason = reason
        res.wall_s = time.time() - t0
        return res
    cmd = ['cbmc'] + cbmc_flags(job) + list(backend_flags) + \
          ['--json-ui', '--trace', binary]
    res.cmds.append(' '.join(cmd))
    res.backend = ' '.join(backend_flags) or 'cbmc built-in SAT (minisat2)'
    rc, out, err, dt = run(cmd, workdir, job.timeout, log)
    res.solver_s = dt
    res.wall_s = time.time() - t0
    if rc == -999:
        res.reason = 'cbmc timeout after %ds' % job.timeout
        return res
    data = _parse_json_stream(out)
    if data is None:
        res.reason = 'cannot parse cbmc output (rc=%s): %s' % (rc, (out + err)[-400:])
        return res
    text_msgs = []
    results = None
    verdict = None
    for item in data:
        if not isinstance(item, dict):
            continue
        if 'messageText' in item:
            text_msgs.append(item['messageText'])
        if 'result' in item:
            results = item['result']
        if 'cProverStatus' in item:
            verdict = item['cProverStatus']
    res.raw_tail = '\n'.join(text_msgs[-12:])
    for t in text_msgs:
        if 'ignoring' in t and ('forall' in t or 'exists' in t or 'quantif' in t):
            res.reason = 'cbmc ignored a quantifier: ' + t
            return res
    if results is None:
        res.reason = 'cbmc gave no result list (rc=%s): %s' % (rc, res.raw_tail[-500:])
        return res
    for r in results:
        ob = {'name': r.get('property', '?'),
              'description': r.get('description', ''),
              'status': r.get('status', '?'),
              'line': (r.get('sourceLocation') or {}).get('line'),
              'function': (r.get('sourceLocation') or {}).get('function')}
        res.obligations.append(ob)
        if 'loop_invariant' in ob['name'] or 'loop invariant' in ob['description'] \
                or 'loop_decreases' in ob['name'] or 'loop_step' in ob['name']:
            res.loop_obligations += 1
        if ob['status'] == 'FAILURE':
            res.failed.append(ob)
            if 'trace' in r:
                res.traces[ob['name']] = r['trace']
        elif ob['status'] != 'SUCCESS':
            res.reason = 'obligation %s has status %s' % (ob['name'], ob['status'])
    if res.failed:
        # obligations downstream of a failing one are reported UNKNOWN by cbmc; the failure decides
        res.status = 'failed'
        res.reason = ''
        return res
    if res.reason:
        return res
    if False:
        res.status = 'failed'
    elif verdict == 'success':
        res.status = 'ok'
    else:
        res.reason = 'verdict %s without failed obligation' % verdict
    return res


def cover(job, workdir):
    """Vacuity guard.  DFCC drops __CPROVER_cover statements, so the unit is
    built a second time with -DYV_COVER, where every YV_COVER(c, name) goal is
    the assertion !(c): each of them must FAIL (= the goal is reachable under
    the contract's preconditions).  Returns (total, hit, missed, reason)."""
    cdir = os.path.join(workdir, 'cover')
    os.makedirs(cdir, exist_ok=True)
    ok, reason, cmds, binary = build(job, cdir, extra_defines=['YV_COVER=1'])
    if not ok:
        return 0, 0, [], 'cover build failed: ' + reason
    log = os.path.join(cdir, 'log.txt')
    fl = ['--no-standard-checks']
    if job.unwind is not None:
        fl += ['--unwind', str(job.unwind)]
    if job.object_bits:
        fl += ['--object-bits', str(job.object_bits)]
    cmd = ['cbmc'] + fl + job.cbmc_extra + ['--json-ui', binary]
    rc, out, err, dt = run(cmd, cdir, job.timeout, log)
    if rc == -999:
        return 0, 0, [], 'cover run timeout'
    data = _parse_json_stream(out)
    if data is None:
        return 0, 0, [], 'cannot parse cover output'
    results = None
    for item in data:
        if isinstance(item, dict) and 'result' in item:
            results = item['result']
    if results is None:
        return 0, 0, [], 'no result list in cover run'
    goals = [r for r in results if r.get('description', '').startswith('YVCOVER')
             and (r.get('sourceLocation') or {}).get('function') in (job.entry, None)]
    total = len(goals)
    hit = sum(1 for g in goals if g.get('status') == 'FAILURE')
    missed = [g.get('description') for g in goals if g.get('status') != 'FAILURE']
    return total, hit, missed, ''


# ----------------------------------------------------------------------------
# trace helpers

def trace_values(trace, prefix=''):
    """last assigned value per lhs (full lhs text) from a cbmc JSON trace."""
    vals = {}
    for step in trace:
        if step.get('stepType') != 'assignment':
            continue
        lhs = step.get('lhs')
        v = step.get('value')
        if lhs is None or v is None:
            continue
        if prefix and not lhs.startswith(prefix):
            continue
        vals[lhs] = v
    return vals


def value_to_py(v):
    """cbmc JSON value -> python int / list / dict (best effort)."""
    if v is None:
        return None
    if 'data' in v and v.get('name') in ('integer', 'boolean', 'pointer', None) \
            and 'elements' not in v and 'members' not in v:
        d = v['data']
        if v.get('name') == 'boolean':
            return 1 if d in ('TRUE', 'true', True) else 0
        if v.get('name') == 'pointer':
            return d
        try:
            s = str(d)
            s = re.sub(r'[uUlL]+$', '', s)
            return int(s, 0)
        except Exception:
            if 'binary' in v:
                b = v['binary']
                return int(b, 2)
            return d
    if 'elements' in v:
        return [value_to_py(e.get('value')) for e in v['elements']]
    if 'members' in v:
        return {m['name']: value_to_py(m.get('value')) for m in v['members']}
    if 'binary' in v:
        return int(v['binary'], 2)
    return v.get('data')
