"""Job model, parallel runner, known findings, evidence, violation reporting."""
import concurrent.futures as cf
import hashlib
import json
import os
import re
import shutil
import sys
import time
import traceback

from . import cbmc
from .extract import ExtractionBroken

ROOT = os.path.dirname(os.path.dirname(os.path.abspath(__file__)))
WORK = os.environ.get('YV_WORK', os.path.join(ROOT, '.work'))
SHIM = os.path.join(ROOT, 'shim')
REPLAYS = os.environ.get('YV_REPLAYS', os.path.join(ROOT, 'replays'))
EVIDENCE = os.environ.get('YV_EVIDENCE', os.path.join(ROOT, 'evidence'))
KNOWN = os.path.join(ROOT, 'known_findings.txt')


class Job:
    def __init__(self, unit, config, c_text, entry, enforce=None, replace=(),
                 loop_contracts=False, unwind=None, kind='proof', bound='',
                 timeout=900, defines=(), min_obligations=1,
                 min_loop_obligations=0, unsigned_overflow_check=False,
                 drop_flags=(), object_bits=None, cbmc_extra=(), min_cover=1,
                 functions=(), trusted=(), assumptions=(), extracted=(),
                 replay=None, note='', props=None, cex_unwind=None, expect_fail=False,
                 no_unwinding_assertions=False):
        self.unit, self.config = unit, config
        self.c_text, self.entry = c_text, entry
        self.enforce, self.replace = enforce, list(replace)
        self.loop_contracts, self.unwind = loop_contracts, unwind
        self.kind, self.bound = kind, bound          # 'proof' | 'bounded'
        self.timeout = timeout
        self.defines = list(defines)
        self.min_obligations = min_obligations
        self.min_loop_obligations = min_loop_obligations
        self.unsigned_overflow_check = unsigned_overflow_check
        self.drop_flags = list(drop_flags)
        self.object_bits = object_bits
        self.cbmc_extra = list(cbmc_extra)
        self.min_cover = min_cover
        self.functions = list(functions)   # "file:line-line name sha"
        self.trusted = list(trusted)
        self.assumptions = list(assumptions)
        self.extracted = list(extracted)   # Extracted objects (for reporting)
        self.replay = replay
        self.note = note
        self.props = props                 # None = serves every property of the unit
        self.expect_fail = expect_fail     # job ends in a never-returns assertion that must be unreachable... see run_job
        self.no_unwinding_assertions = no_unwinding_assertions
        self.broken = None
        self.cex_unwind = cex_unwind       # counterexample search by unwinding when only invariant obligations fail
        self.shim_dir = SHIM
        self.binary = None

    @property
    def key(self):
        return '%s/%s' % (self.unit, self.config)

    def workdir(self):
        return os.path.join(WORK, self.unit, re.sub(r'[^\w.+-]', '_', self.config))


def syntactic_frame_job(unit, config, function, targets, props, functions=()):
    """A call-path function assigns something that is not one of its locals: the read-only frame the race-freedom
    argument rests on (C16) is broken.  Reported as a failing obligation of a one-line job."""
    msg = 'C16 frame: %s assigns %s, which is not a local of the function: the call path must only read shared state' % (
        function, ', '.join(targets))
    c = ('void h_frame(void)\n{\n    __CPROVER_assert(0, "%s");\n}\n' % msg.replace('"', "'"))
    return Job(unit=unit, config=config, c_text=c, entry='h_frame', kind='proof', min_obligations=1, min_cover=0,
               functions=list(functions), props=props,
               trusted=['syntactic frame check: every assignment target of the extracted function must be a local declared in it'])


def clause_text(job, ob):
    """Source text of the contract clause / assertion an obligation refers to."""
    ln = ob.get('line')
    try:
        ln = int(ln)
    except Exception:
        return ''
    lines = job.c_text.split('\n')
    if 1 <= ln <= len(lines):
        return lines[ln - 1].strip()
    return ''


CACHE = os.environ.get('YV_CACHE_DIR', os.path.join(WORK, 'cache'))


def _cache_key(job, tier):
    h = hashlib.sha256()
    for part in (job.c_text, job.entry, str(job.enforce), ','.join(job.replace), str(job.loop_contracts), str(job.unwind),
                 ','.join(job.defines), ','.join(job.cbmc_extra), ','.join(job.drop_flags), str(job.object_bits),
                 str(job.unsigned_overflow_check), str(job.no_unwinding_assertions), tier,
                 str(job.min_cover), str(job.min_obligations), ' '.join(cbmc.DEFAULT_CHECKS), 'v4'):
        h.update(part.encode())
        h.update(b'\0')
    try:
        for fn in sorted(os.listdir(SHIM)):
            h.update(open(os.path.join(SHIM, fn), 'rb').read())
    except OSError:
        pass
    return h.hexdigest()


def _cache_load(job, tier):
    """A job whose generated C text, shim headers and flags are byte-identical to a run that discharged every
    obligation (with all cover goals reached) is not solved again: the obligations are the same formulas.  The
    extraction from /repo and the generation of the C text are redone on every run; failures are never cached."""
    if os.environ.get('YV_NO_CACHE'):
        return None
    path = os.path.join(CACHE, _cache_key(job, tier) + '.json')
    try:
        d = json.load(open(path))
    except Exception:
        return None
    r = cbmc.JobResult(job)
    r.status = 'ok'
    r.obligations = d['obligations']
    r.loop_obligations = d['loop_obligations']
    r.cover = tuple(d['cover'])
    r.solver_s = 0.0
    r.cached_solver_s = d['solver_s']
    r.backend = d['backend'] + ' [verdict reused from an identical job solved earlier]'
    r.cached_when = d.get('when', '')
    r.cmds = d.get('cmds', [])
    r.cross = None
    r.from_cache = True
    return r


def _cache_store(job, tier, r):
    if os.environ.get('YV_NO_CACHE') or r.status != 'ok' or r.reason:
        return
    ct, ch, missed, creason = r.cover
    if creason or ch < ct or ct < job.min_cover or len(r.obligations) < job.min_obligations:
        return
    if tier == 'thorough' and not getattr(job, 'no_cross', False) and (r.cross is None or (r.cross.status != 'ok' and (r.cross.status != 'undecided' or r.cross.failed))):
        return
    os.makedirs(CACHE, exist_ok=True)
    d = {'obligations': r.obligations, 'loop_obligations': r.loop_obligations, 'cover': list(r.cover),
         'solver_s': r.solver_s, 'backend': r.backend, 'cmds': r.cmds, 'when': time.strftime('%Y-%m-%d %H:%M:%S')}
    tmp = os.path.join(CACHE, _cache_key(job, tier) + '.tmp%d' % os.getpid())
    with open(tmp, 'w') as f:
        json.dump(d, f)
    os.replace(tmp, os.path.join(CACHE, _cache_key(job, tier) + '.json'))


def run_job(job, tier):
    r = _run_job(job, tier)
    try:
        if not getattr(r, 'from_cache', False):
            _cache_store(job, tier, r)
    except Exception:
        pass
    return r


def _run_job(job, tier):
    if not job.broken:
        c = _cache_load(job, tier)
        if c is not None:
            return c
    if job.broken:
        r = cbmc.JobResult(job)
        r.reason = job.broken
        r.cover = (0, 0, [], '')
        r.cross = None
        return r
    wd = job.workdir()
    shutil.rmtree(wd, ignore_errors=True)
    os.makedirs(wd, exist_ok=True)
    cov_holder = {}
    th = None
    if job.min_cover > 0:
        import threading
        th = threading.Thread(target=lambda: cov_holder.__setitem__('c', cbmc.cover(job, wd)))
        th.start()
    res = cbmc.verify(job, wd)
    res.cover = (0, 0, [], '')
    if th is not None:
        th.join()
        res.cover = cov_holder.get('c', (0, 0, [], 'cover thread failed'))
    # thorough: cross-check with a second SAT back end
    res.cross = None
    if tier == 'thorough' and res.status == 'ok' and not getattr(job, 'no_cross', False):
        r2 = cbmc.verify(job, wd, backend_flags=('--sat-solver', 'cadical'))
        res.cross = r2
    return res


def load_known():
    findings, fixed = [], []
    if os.path.exists(KNOWN):
        for line in open(KNOWN):
            line = line.strip()
            if not line or line.startswith('#'):
                continue
            m = re.match(r'finding:\s+property=(\S+)\s+obligation=(\S+)\s+(.*)', line)
            if m:
                findings.append({'property': m.group(1), 'obligation': m.group(2),
                                 'what': m.group(3)})
                continue
            m = re.match(r'fixed:\s+property=(\S+)\s+(\S+)\s+(.*)', line)
            if m:
                fixed.append({'property': m.group(1), 'commit': m.group(2),
                              'what': m.group(3)})
    return findings, fixed


def finding_matches(f, prop, obkey):
    if f['property'] != prop:
        return False
    pat = re.escape(f['obligation']).replace(r'\*', '.*')
    return re.fullmatch(pat, obkey) is not None


def write_replay_file(prop, job, ob, res, replay_info):
    os.makedirs(REPLAYS, exist_ok=True)
    name = '%s-%s-%s-%s.json' % (
        prop, job.unit, re.sub(r'[^\w.+-]', '_', job.config),
        re.sub(r'[^\w.+-]', '_', ob['name']))
    path = os.path.join(REPLAYS, name)
    trace = res.traces.get(ob['name'])
    doc = {
        'property': prop,
        'unit': job.unit,
        'configuration': job.config,
        'obligation': ob['name'],
        'description': ob['description'],
        'clause': clause_text(job, ob),
        'generated_source': os.path.join(job.workdir(), 'unit.c'),
        'extracted_from': job.functions,
        'commands': res.cmds,
        'verifier_output_tail': res.raw_tail,
        'verifier_inputs': replay_info.get('input'),
        'replayed_on_real_code': replay_info.get('reproduced'),
        'replay_detail': replay_info.get('detail'),
        'replay_cmd': replay_info.get('cmd'),
        'rerun': 'bin/check %s --replay %s' % (prop, path),
        'trace_assignments': [
            {'lhs': s.get('lhs'), 'value': (s.get('value') or {}).get('data'),
             'line': (s.get('sourceLocation') or {}).get('line'),
             'function': (s.get('sourceLocation') or {}).get('function')}
            for s in (trace or []) if s.get('stepType') == 'assignment'
            and not str(s.get('lhs', '')).startswith('__CPROVER')][-400:],
    }
    with open(path, 'w') as f:
        json.dump(doc, f, indent=1, default=str)
    return path


def run_property(prop, spec, tier, seed, only_units=None):
    """spec: dict(units=[callable(tier)->list[Job]], level, unverified, ...).
    Returns exit code."""
    t0 = time.time()
    jobs = []
    for mk in spec['units']:
        uname = getattr(mk, '__module__', 'unit').split('.')[-1]
        if only_units and uname not in only_units and not any(u.startswith(uname) for u in only_units):
            # unit modules are named after their unit (static_list, best, ...)
            pass
        try:
            made = mk(tier)
        except ExtractionBroken as e:
            # this unit cannot be mapped to C any more: undecided for the unit, the other units still run
            print('EXTRACTION-BROKEN property=%s unit=%s reason=%s' % (prop, uname, e))
            bj = Job(unit=uname, config='extraction', c_text='', entry='none')
            bj.broken = 'the code no longer has the shape the extractor can map to C: %s' % e
            made = [bj]
        for j in made:
            if j.props is not None and prop not in j.props:
                continue
            if only_units and j.unit not in only_units:
                continue
            jobs.append(j)
    if not jobs:
        print('no jobs for', prop)
        return 2
    nw = int(os.environ.get('YV_JOBS', '16'))
    results = {}
    with cf.ThreadPoolExecutor(max_workers=nw) as ex:
        futs = {ex.submit(run_job, j, tier): j for j in jobs}
        for fu in cf.as_completed(futs):
            j = futs[fu]
            try:
                results[j.key] = fu.result()
            except Exception as e:
                r = cbmc.JobResult(j)
                r.reason = 'engine exception: %s' % traceback.format_exc()[-800:]
                r.cover = (0, 0, [], '')
                r.cross = None
                results[j.key] = r
    findings, fixed = load_known()
    undecided = []
    violations = []
    known_hits = []
    n_ob = n_dis = n_bob = n_bdis = 0
    cover_total = cover_hit = 0
    solver_s = 0.0
    cross_unfinished = []
    samples = []
    per_job = []
    cache_hits = 0
    for j in jobs:
        r = results[j.key]
        solver_s += r.solver_s
        if getattr(r, 'from_cache', False):
            cache_hits += 1
        if r.status == 'undecided':
            undecided.append('%s: %s' % (j.key, r.reason))
            per_job.append({'job': j.key, 'status': 'undecided', 'reason': r.reason[:300]})
            continue
        nob = len(r.obligations)
        nfail = len(r.failed)
        if nob < j.min_obligations:
            undecided.append('%s: only %d obligations generated (expected >= %d): vacuity guard'
                             % (j.key, nob, j.min_obligations))
        if j.loop_contracts and r.loop_obligations < j.min_loop_obligations:
            undecided.append('%s: %d loop-contract obligations (expected >= %d): a loop contract was not applied'
                             % (j.key, r.loop_obligations, j.min_loop_obligations))
        ct, ch, missed, creason = r.cover
        if j.min_cover > 0:
            if creason:
                undecided.append('%s: cover run: %s' % (j.key, creason))
            elif ct < j.min_cover or ch < ct:
                undecided.append('%s: cover goals %d/%d satisfied (expected all of >= %d); missed: %s : vacuity guard'
                                 % (j.key, ch, ct, j.min_cover, missed[:4]))
        cover_total += ct
        cover_hit += ch
        if r.cross is not None:
            solver_s += r.cross.solver_s
            if r.cross.status != r.status:
                if r.cross.status == 'undecided' and not r.cross.failed:
                    # the second back end ran out of time or memory: no second opinion, the first back end's verdict stands
                    cross_unfinished.append('%s: %s' % (j.key, (r.cross.reason or '')[:160]))
                else:
                    undecided.append('%s: back ends disagree (minisat %s, cadical %s %s)'
                                     % (j.key, r.status, r.cross.status, r.cross.reason))
        if j.kind == 'proof':
            n_ob += nob
            n_dis += nob - nfail
        else:
            n_bob += nob
            n_bdis += nob - nfail
        per_job.append({'job': j.key, 'kind': j.kind, 'bound': j.bound,
                        'obligations': nob, 'failed': nfail,
                        'loop_contract_obligations': r.loop_obligations,
                        'cover_goals': '%d/%d' % (ch, ct),
                        'solver_s': round(r.solver_s, 2),
                        **({'solver_s_when_solved': round(getattr(r, 'cached_solver_s', 0.0), 2), 'solved_at': getattr(r, 'cached_when', '')}
                           if getattr(r, 'from_cache', False) else {}),
                        'backend': r.backend +
                        (' + cadical cross-check' if r.cross is not None else '')})
        for ob in r.obligations[:2]:
            if len(samples) < 24:
                samples.append({'job': j.key, 'obligation': ob['name'],
                                'description': ob['description'],
                                'status': ob['status']})
        # contract clauses are the interesting samples
        for ob in r.obligations:
            if ('postcondition' in ob['name'] or 'ensures' in ob['description']
                    or ob['name'].startswith('h_')) and len(samples) < 60:
                samples.append({'job': j.key, 'obligation': ob['name'],
                                'description': ob['description'],
                                'clause': clause_text(j, ob),
                                'status': ob['status']})
        for ob in r.failed:
            obkey = '%s/%s' % (j.key, ob['name'])
            hit = [f for f in findings if finding_matches(f, prop, obkey)]
            if hit:
                known_hits.append((hit[0], obkey))
                continue
            violations.append((j, r, ob, obkey))

    # ------------------------------------------------------------ reporting
    rc = 0
    for f, obkey in known_hits:
        print('KNOWN-FINDING: property=%s %s [%s]' % (prop, f['what'], obkey))
    vio_lines = []
    if violations and not undecided_blocks(undecided):
        # group by job: replay the first failing obligation of each job, list all
        seen_jobs = {}
        n_replayed = 0
        for (j, r, ob, obkey) in violations:
            seen_jobs.setdefault(j.key, []).append((j, r, ob, obkey))
        for jk, lst in seen_jobs.items():
            # prefer contract-level obligations (postconditions / harness asserts)
            lst.sort(key=lambda t: (0 if ('postcondition' in t[2]['name'] or
                                          t[2]['name'].startswith('h_') or
                                          'assert' in t[2]['name']) else 1))
            for idx, (j, r, ob, obkey) in enumerate(lst[:1]):
                info = {'reproduced': None, 'detail': 'no replay driver for this unit', 'input': None}
                contract_level = ('postcondition' in ob['name'] or ob['name'].startswith('h_') or '.assertion.' in ob['name'])
                if j.replay is not None and not contract_level and j.cex_unwind:
                    # the failing obligation is an inductive step (havocked loop state): look for a
                    # concrete input by unwinding the same extracted function instead
                    r2 = cex_by_unwinding(j)
                    cand = [o for o in r2.failed if 'postcondition' in o['name'] or '.assertion.' in o['name']]
                    if cand and r2.traces.get(cand[0]['name']):
                        r, ob = r2, cand[0]
                        print('  (inductive-step failure; concrete counterexample found by unwinding: %s)' % ob['name'])
                if j.replay is not None and n_replayed >= 6:
                    info = {'reproduced': None, 'detail': 'not replayed (replay budget: the first 6 failing jobs of a run are replayed)', 'input': None}
                elif j.replay is not None:
                    n_replayed += 1
                    try:
                        info = j.replay(j, r, ob) or info
                    except Exception:
                        info = {'reproduced': None,
                                'detail': 'replay driver failed: ' + traceback.format_exc()[-600:],
                                'input': None}
                path = write_replay_file(prop, j, ob, r, info)
                tail = '' if info.get('reproduced') else ' no-failing-input-found'
                print('FAILED-OBLIGATION property=%s unit=%s obligation=%s :: %s :: %s'
                      % (prop, jk, ob['name'], ob['description'], clause_text(j, ob)))
                if info.get('detail'):
                    print('  replay: %s' % str(info.get('detail'))[:400])
                vio_lines.append('VIOLATION property=%s replay=%s%s' % (prop, path, tail))
            if len(lst) > 1:
                print('  (+%d more failing obligations in %s: %s)' % (len(lst) - 1, jk, ', '.join(t[2]['name'] for t in lst[1:6])))
        rc = 1
    if undecided:
        for u in undecided:
            print('UNDECIDED property=%s %s' % (prop, u))
        if rc == 0:
            rc = 2
        elif undecided_blocks(undecided):
            rc = 2
    for l in vio_lines[:12]:
        print(l)
    if len(vio_lines) > 12:
        print('(+%d more VIOLATION lines for property %s suppressed; all replay files are under %s)' % (len(vio_lines) - 12, prop, REPLAYS))

    # ------------------------------------------------------------ evidence
    funcs, trusted, assumptions, dropped, rules = [], [], [], [], []
    for j in jobs:
        for f in j.functions:
            if f not in funcs:
                funcs.append(f)
        for t in j.trusted:
            if t not in trusted:
                trusted.append(t)
        for a in j.assumptions:
            if a not in assumptions:
                assumptions.append(a)
        for e in j.extracted:
            for d in e.dropped:
                s = '%s: %s' % (e.where(), d[:160])
                if s not in dropped:
                    dropped.append(s)
            rr = '%s: %s' % (e.where(), ', '.join('%s x%d' % (n, c) for n, c in e.rules_fired if c))
            if rr not in rules:
                rules.append(rr)
    scan = scan_assumes(jobs)
    level = spec.get('level', 'proof')
    ev = {
        'property_id': prop,
        'tier': tier,
        'seed': seed,
        'level': level,
        'coverage': {
            'obligations': n_ob,
            'discharged': n_dis,
            'bounded_obligations': n_bob,
            'bounded_discharged': n_bdis,
            'bounds': sorted(set(j.bound for j in jobs if j.kind == 'bounded')),
            'checker_cmd': 'goto-cc --function <h> unit.c; goto-instrument --dfcc <h> '
                           '--enforce-contract <f> [--replace-call-with-contract <g>] '
                           '--apply-loop-contracts; cbmc ' + ' '.join(cbmc.DEFAULT_CHECKS) +
                           ' (exact command lines per job in .work/<unit>/<config>/log.txt)',
            'trusted_base': trusted + [
                'cbmc 6.11.0 / goto-instrument DFCC / SAT back end',
                'extractor rewrite rules (engine/extract.py, units/*.py)'],
            'backends': sorted(set(x['backend'] for x in per_job if 'backend' in x)),
            'solver_s': round(solver_s, 1),
            'second_back_end_did_not_finish': cross_unfinished,
            'jobs_with_verdict_reused': cache_hits,
            'solver_s_of_reused_verdicts_when_solved': round(sum(x.get('solver_s_when_solved', 0.0) for x in per_job), 1),
            'verdict_reuse_rule': 'a job whose generated C text, shim headers and tool flags are byte-identical to a job that discharged every obligation earlier (same /verif/.work/cache) is not solved again; extraction and C generation from /repo are redone every run; failures are never reused; YV_NO_CACHE=1 disables',
            'functions_under_contract': funcs,
            'jobs': per_job,
            'cover_goals': '%d/%d satisfied' % (cover_hit, cover_total),
            'samples': samples[:60],
            'rewrite_rules_fired': rules,
            'dropped_statements': dropped,
            'assume_scan': scan,
            'unverified_surroundings': spec.get('unverified', []),
            'known_findings_reported': [f['what'] for f, _ in known_hits],
            'undecided': undecided,
            'explanation': spec.get('explanation', ''),
        },
        'assumptions': assumptions + spec.get('assumptions', []),
        'wall_s': round(time.time() - t0, 1),
        'violations': len(vio_lines),
    }
    if n_ob == 0:
        # only bounded jobs: cannot be a proof-level evidence file
        ev['level'] = 'other' if level == 'proof' else level
        ev['coverage']['explanation'] = (ev['coverage']['explanation'] +
                                         ' (bounded obligations only in this run)')
    os.makedirs(EVIDENCE, exist_ok=True)
    with open(os.path.join(EVIDENCE, prop + '.json'), 'w') as f:
        json.dump(ev, f, indent=1, default=str)
    print('%s tier=%s: %d jobs, proof obligations %d/%d discharged, bounded %d/%d, '
          'cover %d/%d, solver %.0fs (%d verdicts reused), wall %.0fs -> exit %d'
          % (prop, tier, len(jobs), n_dis, n_ob, n_bdis, n_bob, cover_hit,
             cover_total, solver_s, cache_hits, time.time() - t0, rc))
    return rc


def cex_by_unwinding(j):
    import copy
    j2 = copy.copy(j)
    j2.loop_contracts = False
    j2.unwind = j.cex_unwind
    j2.config = j.config + '+cex-unwind'
    wd = j2.workdir()
    shutil.rmtree(wd, ignore_errors=True)
    os.makedirs(wd, exist_ok=True)
    return cbmc.verify(j2, wd)


def undecided_blocks(undecided):
    """Any undecided item makes the run inconclusive (exit 2) unless there is
    also a genuine failed obligation; failed obligations of decided jobs are
    still reported.  A job that could not be built at all blocks nothing else."""
    return False


def scan_assumes(jobs):
    """Mechanical scan of generated sources for assumption-like constructs."""
    out = {}
    for j in jobs:
        n_assume = len(re.findall(r'__CPROVER_assume\s*\(', j.c_text))
        bodyless = re.findall(r'^\s*[\w\s\*]+?\b(\w+)\s*\([^;{}]*\)\s*(?:__CPROVER_\w+\s*\(.*\)\s*)*;\s*$',
                              j.c_text, re.M)
        out[j.key] = {'__CPROVER_assume': n_assume,
                      'replaced_by_contract': j.replace}
    return out
