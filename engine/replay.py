"""Replay of verifier counterexamples against the real C++ code in /repo."""
import json
import os
import re
import subprocess

from . import cbmc
from .extract import REPO

ROOT = os.path.dirname(os.path.dirname(os.path.abspath(__file__)))
DRIVERS = os.path.join(ROOT, 'drivers')
BUILD = os.path.join(os.environ.get('YV_WORK', os.path.join(ROOT, '.work')), 'drivers')


def last_values(trace):
    vals = {}
    for step in trace:
        if step.get('stepType') != 'assignment':
            continue
        lhs = step.get('lhs')
        if lhs is None:
            continue
        vals[lhs] = cbmc.value_to_py(step.get('value'))
    return vals


def as_int(v):
    if isinstance(v, bool):
        return int(v)
    if isinstance(v, int):
        return v
    if isinstance(v, str):
        try:
            return int(re.sub(r'[uUlL]+$', '', v), 0)
        except Exception:
            return None
    return None


def arr(vals, name, n):
    """collect name[0..n) from a last_values dict (cbmc prints name[0l])."""
    out = []
    for k in range(n):
        v = None
        for key in ('%s[%dl]' % (name, k), '%s[%d]' % (name, k), '%s[%dul]' % (name, k)):
            if key in vals:
                v = vals[key]
                break
        if v is None and isinstance(vals.get(name), list) and k < len(vals[name]):
            v = vals[name][k]
        out.append(as_int(v))
    return out


def build_driver(name, extra_flags=(), sources=None):
    """Compile drivers/<name>.cpp against /repo/include (cached per repo content
    hash is not attempted: always rebuilt from the current tree)."""
    os.makedirs(BUILD, exist_ok=True)
    exe = os.path.join(BUILD, name)
    src = sources or [os.path.join(DRIVERS, name + '.cpp')]
    cmd = ['g++', '-std=c++17', '-O1', '-g', '-I', os.path.join(REPO, 'include'),
           '-I', os.path.join(ROOT, 'shim')] + list(extra_flags) + src + ['-o', exe]
    p = subprocess.run(cmd, stdout=subprocess.PIPE, stderr=subprocess.STDOUT, timeout=600)
    if p.returncode != 0:
        return None, p.stdout.decode(errors='replace')[-1500:]
    return exe, ' '.join(cmd)


def run_real_driver(name, args, inp, extra_flags=()):
    """inp is a JSON-able dict written to the driver's stdin as whitespace
    separated tokens under key 'tokens' (drivers parse plain numbers)."""
    exe, info = build_driver(name, extra_flags)
    if exe is None:
        return {'reproduced': None, 'detail': 'replay driver does not compile against /repo: ' + info,
                'input': inp}
    toks = ' '.join(str(t) for t in inp['tokens'])
    try:
        p = subprocess.run([exe] + list(args), input=toks.encode(), stdout=subprocess.PIPE,
                           stderr=subprocess.STDOUT, timeout=120)
        out = p.stdout.decode(errors='replace')
    except subprocess.TimeoutExpired:
        return {'reproduced': None, 'detail': 'replay driver timeout', 'input': inp}
    rep = 'REPRODUCED' in out
    return {'reproduced': rep, 'detail': out.strip()[-800:], 'input': inp,
            'cmd': 'echo "%s" | %s %s   # built by: %s' % (toks, exe, ' '.join(args), info)}


def ims_input_from_trace(tr, n, fn):
    """is_more_specific / is_base: positions' classes and the two cov facts.
    The ghost block evaluates A_(k), B_(k), COV(..) - the values of the classes
    are not assigned anywhere, so the harness-level witnesses w_a / w_b /
    w_cab / w_cba (ghost locals) are used."""
    vals = last_values(tr)
    a = arr(vals, 'g_a', 16)
    b = arr(vals, 'g_b', 16)
    cab = arr(vals, 'g_cab', 16)
    cba = arr(vals, 'g_cba', 16)
    if any(x is None for x in a[:n] + b[:n] + cab[:n] + cba[:n]):
        return None
    toks = [n]
    for k in range(n):
        toks += [a[k], b[k], cab[k], cba[k]]
    return {'tokens': toks, 'n': n, 'a': a[:n], 'b': b[:n],
            'cov(a_k,b_k)': cab[:n], 'cov(b_k,a_k)': cba[:n]}


def replay_best(n, order, dom):
    nc = len(dom)
    toks = [nc, n] + list(order)
    for i in range(nc):
        for j in range(nc):
            v = dom[i][j]
            toks.append(1 if v else 0)
    inp = {'tokens': toks, 'candidates_in_order': order,
           'more_specific_pairs': [(i, j) for i in range(nc) for j in range(nc) if dom[i][j]]}
    return run_real_driver('best', [], inp)


# ----------------------------------------------------------------------------
# end-to-end replay of a signature shape against the real library

def _shape_params(shape):
    """C++ method parameter list and call helpers for a shape over {V, P, N}."""
    mparams, dparams_t = [], []
    for i, k in enumerate(shape):
        if k == 'V':
            mparams.append('virtual_<A&>')
        elif k == 'P':
            mparams.append('virtual_ptr<A>')
        else:
            mparams.append(['int', 'double', 'char'][i % 3])
    return mparams


def shape_dispatch_program(shape):
    """Real registry: A, B : A; one definition per combination of {A, B} at the virtual positions returning the
    combination's number; every combination is called and compared."""
    vpos = [i for i, k in enumerate(shape) if k in 'VP']
    v = len(vpos)
    mp = _shape_params(shape)
    L = ['#include <yorel/yomm2/keywords.hpp>', '#include <iostream>', 'using namespace yorel::yomm2;',
         'struct A { virtual ~A() {} }; struct B : A {};', 'register_classes(A, B);',
         'declare_method(int, m, (%s));' % ', '.join(mp)]
    for combo in range(2 ** v):
        ps = []
        for i, k in enumerate(shape):
            if k in 'VP':
                cls = 'B' if (combo >> vpos.index(i)) & 1 else 'A'
                ps.append('%s&' % cls if k == 'V' else 'virtual_ptr<%s>' % cls)
            else:
                ps.append(mp[i])
        L.append('define_method(int, m, (%s)) { return %d; }' % (', '.join(ps), combo))
    L.append('int main() { update(); A a; B b; int bad = 0;')
    for combo in range(2 ** v):
        args = []
        for i, k in enumerate(shape):
            if k in 'VP':
                obj = 'b' if (combo >> vpos.index(i)) & 1 else 'a'
                args.append(obj if k == 'V' else 'virtual_ptr<A>(%s)' % obj)
            else:
                args.append('0')
        L.append('  { int r = m(%s); if (r != %d) { std::cout << "m(%s) runs definition " << r << ", the most specific applicable one is %d\\n"; ++bad; } }'
                 % (', '.join(args), combo, ', '.join(args).replace('"', ''), combo))
    L.append('  if (bad) std::cout << "REPRODUCED on real code\\n"; else std::cout << "real library dispatches this shape correctly\\n"; return 0; }')
    return '\n'.join(L) + '\n'


def shape_handler_program(shape, ambiguous):
    vpos = [i for i, k in enumerate(shape) if k in 'VP']
    mp = _shape_params(shape)
    args = []
    for i, k in enumerate(shape):
        obj = 'b' if (len(args) % 2) else 'a'
        if k == 'V':
            args.append(obj)
        elif k == 'P':
            args.append('virtual_ptr<A>(%s)' % obj)
        else:
            args.append('0')
    want = []
    n = 0
    for i, k in enumerate(shape):
        obj = 'B' if (n % 2) else 'A'
        if k in 'VP':
            want.append('(type_id)&typeid(%s)' % obj)
        n += 1
    L = ['#include <yorel/yomm2/keywords.hpp>', '#include <iostream>', 'using namespace yorel::yomm2;',
         'struct A { virtual ~A() {} }; struct B : A {};', 'register_classes(A, B);',
         'struct key; using meth = method<key, int(%s)>;' % ', '.join(mp),
         'int main() { update(); A a; B b; int bad = 0;',
         '  default_policy::error = [&bad](const error_type& e) {',
         '    auto r = std::get_if<resolution_error>(&e); if (!r) return;',
         '    type_id want[] = { %s };' % ', '.join(want),
         '    if (r->status != resolution_error::%s) { std::cout << "status " << r->status << "\\n"; ++bad; }' % ('ambiguous' if ambiguous else 'no_definition'),
         '    if (r->arity != %d) { std::cout << "arity " << r->arity << ", the method has %d virtual parameters\\n"; ++bad; }' % (len(vpos), len(vpos)),
         '    for (std::size_t i = 0; i < %d && i < resolution_error::max_types; ++i) if (r->types[i] != want[i]) { std::cout << "types[" << i << "] is not the dynamic type of virtual argument " << i << "\\n"; ++bad; }' % len(vpos),
         '    throw 0; };',
         '  try { meth::%s(%s); } catch (int) {}' % ('ambiguous_handler' if ambiguous else 'not_implemented_handler', ', '.join(args)),
         '  if (bad) std::cout << "REPRODUCED on real code\\n"; else std::cout << "real handler reports this shape correctly\\n"; return 0; }']
    return '\n'.join(L) + '\n'


def run_generated_program(name, text, note):
    os.makedirs(BUILD, exist_ok=True)
    src = os.path.join(BUILD, name + '.cpp')
    with open(src, 'w') as f:
        f.write(text)
    exe, info = build_driver(name, sources=[src])
    if exe is None:
        return {'reproduced': None, 'detail': 'generated replay program does not compile against /repo: ' + info, 'input': note}
    try:
        p = subprocess.run([exe], stdout=subprocess.PIPE, stderr=subprocess.STDOUT, timeout=120)
        out = p.stdout.decode(errors='replace')
    except subprocess.TimeoutExpired:
        return {'reproduced': None, 'detail': 'replay program timeout', 'input': note}
    return {'reproduced': 'REPRODUCED' in out or p.returncode not in (0,), 'detail': out.strip()[-800:] + (' [exit %d]' % p.returncode),
            'input': note, 'cmd': '%s   # source %s, built by: %s' % (exe, src, info)}


def lattice_program(n, base, pcls):
    """Real registry for a counterexample of slot allocation: classes C0..C(n-1) with the given direct bases
    (virtual inheritance, so diamonds convert), registered in index order; one uni-method per (method, parameter)
    pair with one definition returning the pair's number; every applicable call is made and compared."""
    anc = [[bool(base[d][b]) for b in range(n)] for d in range(n)]
    for k in range(n):
        for d in range(n):
            for b in range(n):
                if anc[d][k] and anc[k][b]:
                    anc[d][b] = True
    order = sorted(range(n), key=lambda c: sum(anc[c]))
    L = ['#include <yorel/yomm2/keywords.hpp>', '#include <iostream>', 'using namespace yorel::yomm2;']
    for c in order:
        bs = [b for b in range(n) if base[c][b]]
        L.append('struct C%d%s { virtual ~C%d() {} };' % (c, (' : ' + ', '.join('virtual C%d' % b for b in bs)) if bs else '', c))
    L.append('register_classes(%s);' % ', '.join('C%d' % c for c in range(n)))
    for p, c in enumerate(pcls):
        L.append('declare_method(int, m%d, (virtual_<C%d&>));' % (p, c))
        L.append('define_method(int, m%d, (C%d&)) { return %d; }' % (p, c, p))
    L.append('int main() { update(); int bad = 0;')
    for c in range(n):
        L.append('  { C%d o;' % c)
        for p, pc in enumerate(pcls):
            if pc == c or anc[c][pc]:
                L.append('    { int r = m%d(o); if (r != %d) { std::cout << "m%d(C%d object) ran the definition of m" << r << "\\n"; ++bad; } }' % (p, p, p, c))
        L.append('  }')
    L.append('  if (bad) std::cout << "REPRODUCED on real code\\n"; else std::cout << "real library dispatches this lattice correctly\\n"; return 0; }')
    return '\n'.join(L) + '\n'
