"""Mechanical extraction of C++ function bodies / fragments from /repo headers
and rule-based rewriting to the C subset CBMC accepts.

Nothing here knows what a unit proves.  A unit names a function (or a fragment
delimited by two anchors), lists the rewrite rules that must / may fire and
the places where contract text is woven in.  Structural problems raise
ExtractionBroken (exit 2 upstream) - never a violation.
"""
import hashlib
import os
import re


class ExtractionBroken(Exception):
    pass


REPO = os.environ.get("YV_REPO", "/repo")


def read_repo(rel):
    path = os.path.join(REPO, rel)
    try:
        with open(path, encoding="utf-8") as f:
            return f.read()
    except OSError as e:
        raise ExtractionBroken("cannot read %s: %s" % (path, e))


# ----------------------------------------------------------------------------
# comments / strings aware scanning

def strip_comments(src):
    """Replace // and /* */ comments by spaces (newlines kept, so line numbers
    survive).  String and char literals are respected."""
    out = []
    i, n = 0, len(src)
    while i < n:
        c = src[i]
        if c == '/' and i + 1 < n and src[i + 1] == '/':
            j = src.find('\n', i)
            if j < 0:
                j = n
            out.append(' ' * (j - i))
            i = j
        elif c == '/' and i + 1 < n and src[i + 1] == '*':
            j = src.find('*/', i + 2)
            if j < 0:
                raise ExtractionBroken("unterminated comment")
            seg = src[i:j + 2]
            out.append(re.sub(r'[^\n]', ' ', seg))
            i = j + 2
        elif c == '"' or c == "'":
            j = i + 1
            while j < n and src[j] != c:
                if src[j] == '\\':
                    j += 1
                j += 1
            out.append(src[i:j + 1])
            i = j + 1
        else:
            out.append(c)
            i += 1
    return ''.join(out)


def match_close(src, i, open_ch='{', close_ch='}'):
    """src[i] == open_ch; return index of the matching close_ch."""
    assert src[i] == open_ch, (src[i], open_ch)
    depth = 0
    n = len(src)
    j = i
    while j < n:
        c = src[j]
        if c == '"' or c == "'":
            k = j + 1
            while k < n and src[k] != c:
                if src[k] == '\\':
                    k += 1
                k += 1
            j = k + 1
            continue
        if c == open_ch:
            depth += 1
        elif c == close_ch:
            depth -= 1
            if depth == 0:
                return j
        j += 1
    raise ExtractionBroken("unbalanced %s" % open_ch)


def line_of(src, idx):
    return src.count('\n', 0, idx) + 1


class Extracted:
    def __init__(self, rel, header, body, line, end_line):
        self.rel = rel
        self.header = header      # text between signature start and '{'
        self.body = body          # text between the braces (exclusive)
        self.line = line
        self.end_line = end_line
        self.rules_fired = []     # (rule name, count)
        self.dropped = []         # verbatim dropped statements

    def where(self):
        return "%s:%d-%d" % (self.rel, self.line, self.end_line)

    def sha(self):
        return hashlib.sha256(self.body.encode()).hexdigest()[:16]


def find_function(rel, sig_regex, occurrence=0):
    """Locate a function definition whose signature matches sig_regex (searched
    in comment-stripped text); returns Extracted with header = matched
    signature up to the opening brace and body = text inside the braces."""
    src = strip_comments(read_repo(rel))
    ms = list(re.finditer(sig_regex, src, re.S))
    # keep only matches followed (after optional qualifiers) by '{'
    defs = []
    for m in ms:
        j = m.end()
        k = j
        while k < len(src) and src[k] in ' \t\r\n':
            k += 1
        # allow 'const', 'noexcept' between ) and {
        m2 = re.match(r'(?:\s*(?:const|noexcept))*\s*\{', src[j:], re.S)
        if m2:
            defs.append((m, j + m2.end() - 1))
    if len(defs) <= occurrence:
        raise ExtractionBroken(
            "function not found: /%s/ in %s (%d definitions)" %
            (sig_regex, rel, len(defs)))
    m, ob = defs[occurrence]
    cb = match_close(src, ob)
    return Extracted(rel, src[m.start():ob].strip(), src[ob + 1:cb],
                     line_of(src, m.start()), line_of(src, cb))


def find_fragment(rel, start_regex, end_regex, within=None, include_start=True,
                  include_end=False):
    """A delimited fragment of a function: from the first match of start_regex
    to the first following match of end_regex.  `within` (sig regex) restricts
    the search to one function body."""
    if within:
        fn = find_function(rel, within)
        src = fn.body
        base_line = fn.line + fn.header.count('\n')
    else:
        src = strip_comments(read_repo(rel))
        base_line = 1
    ms = re.search(start_regex, src, re.S)
    if not ms:
        raise ExtractionBroken("fragment start /%s/ not found in %s" %
                               (start_regex, rel))
    s = ms.start() if include_start else ms.end()
    me = re.compile(end_regex, re.S).search(src, ms.end())
    if not me:
        raise ExtractionBroken("fragment end /%s/ not found in %s" %
                               (end_regex, rel))
    e = me.end() if include_end else me.start()
    return Extracted(rel, '', src[s:e], base_line + src.count('\n', 0, s),
                     base_line + src.count('\n', 0, e))


def block_after(src, start_idx):
    """start_idx points at '{'; returns (inner_text, index after '}')."""
    cb = match_close(src, start_idx)
    return src[start_idx + 1:cb], cb + 1


# ----------------------------------------------------------------------------
# rewrite rules

class Rule:
    def __init__(self, name, pattern, repl, min_count=0, max_count=None,
                 flags=re.S):
        self.name, self.pattern, self.repl = name, pattern, repl
        self.min_count, self.max_count, self.flags = min_count, max_count, flags


def apply_rules(ex, rules):
    body = ex.body
    for r in rules:
        if callable(r):
            body = r(ex, body)
            continue
        body, n = re.subn(r.pattern, r.repl, body, flags=r.flags)
        if n < r.min_count or (r.max_count is not None and n > r.max_count):
            raise ExtractionBroken(
                "rule '%s' fired %d times in %s (expected %s..%s)" %
                (r.name, n, ex.where(), r.min_count, r.max_count))
        ex.rules_fired.append((r.name, n))
    ex.body = body
    return ex


_SIDE_EFFECT_OK = re.compile(
    r'^(?:\+\+)?trace\b|^indent\s+_\(trace\)|^Policy::trace_stream\b')


def _has_foreign_side_effect(stmt):
    """A dropped trace statement must not assign or increment anything but the
    trace object itself, nor call anything outside the trace whitelist."""
    s = re.sub(r'"(?:[^"\\]|\\.)*"', '""', stmt)
    s = re.sub(r'^\s*\+\+trace', 'trace', s)
    if re.search(r'(?<![=!<>])=(?!=)', s):
        return True
    if re.search(r'\+\+|--', s):
        return True
    for call in re.findall(r'([A-Za-z_][\w:]*)\s*\(', s):
        base = call.split('::')[-1]
        if base not in ('type_name', 'range', 'rflush', 'spec_name', 'indent',
                        '_', 'size', 'begin', 'end', 'arity', 'front', 'back', 'data', 'empty'):
            return True
    return False


def drop_trace(ex, body):
    """Remove trace statements and `if constexpr (trace_enabled) {...}` blocks.
    Every dropped statement is recorded verbatim."""
    out = []
    i = 0
    n = len(body)
    count = 0
    while i < n:
        m = re.compile(
            r'if\s+constexpr\s*\(\s*(?:trace_enabled|'
            r'Policy::template\s+has_facet<\s*(?:policy::)?trace_output\s*>)'
            r'\s*\)\s*\{').match(body, i)
        if m and (i == 0 or not (body[i - 1].isalnum() or body[i - 1] == '_')):
            ob = m.end() - 1
            inner, after = block_after(body, ob)
            # an else branch would be kept: not present in the code base
            if re.match(r'\s*else\b', body[after:]):
                raise ExtractionBroken(
                    "trace block with else branch in %s" % ex.where())
            ex.dropped.append(re.sub(r'\s+', ' ', body[i:after]))
            # block must not contain foreign side effects
            for st in re.sub(r'"(?:[^"\\]|\\.)*"', '""', inner).split(';'):
                st = st.strip()
                if not st:
                    continue
                if re.match(r'(?:\+\+)?trace\b|indent\s+_|for\s*\(|if\s*\(|\}|\{', st):
                    continue
                if _has_foreign_side_effect(st):
                    raise ExtractionBroken(
                        "dropped trace block has side effect: %r" % st)
            out.append(re.sub(r'[^\n]', '', body[i:after]))
            i = after
            count += 1
            continue
        m = re.compile(r'(?:\+\+trace\b|trace\s*<<|indent\s+_\(trace\)\s*;|'
                       r'\+\+trace\s*;)').match(body, i)
        if m and (i == 0 or not (body[i - 1].isalnum() or body[i - 1] in '_.>')):
            j = i
            depth = 0
            while j < n:
                c = body[j]
                if c == '"':
                    k = j + 1
                    while body[k] != '"':
                        if body[k] == '\\':
                            k += 1
                        k += 1
                    j = k + 1
                    continue
                if c in '([{':
                    depth += 1
                elif c in ')]}':
                    depth -= 1
                elif c == ';' and depth == 0:
                    break
                j += 1
            stmt = body[i:j + 1]
            if _has_foreign_side_effect(stmt[:-1]):
                raise ExtractionBroken(
                    "dropped trace statement has a side effect: %r in %s" %
                    (stmt, ex.where()))
            ex.dropped.append(re.sub(r'\s+', ' ', stmt))
            out.append(re.sub(r'[^\n]', '', stmt))
            i = j + 1
            count += 1
            continue
        out.append(body[i])
        i += 1
    ex.rules_fired.append(('drop-trace', count))
    return ''.join(out)


def split_top(s, sep=','):
    parts, depth, cur = [], 0, []
    for c in s:
        if c in '([{<' and not (c == '<' and False):
            depth += 1 if c != '<' else 0
        elif c in ')]}':
            depth -= 1
        if c == sep and depth == 0:
            parts.append(''.join(cur))
            cur = []
        else:
            cur.append(c)
    parts.append(''.join(cur))
    return parts


def split_auto_declarators(ex, body):
    """`auto a = e1, b = e2;` -> one __auto_type declaration per declarator."""
    cnt = [0]

    def rep(m):
        decls = split_top(m.group(2))
        cnt[0] += 1
        return ' '.join('%s__auto_type %s;' % (m.group(1) or '', d.strip())
                        for d in decls)
    body = re.sub(r'(\bconst\s+)?\bauto\s+(?![&*\[])([^;(){}]*?=[^;]*?);', rep,
                  body)
    ex.rules_fired.append(('auto->__auto_type', cnt[0]))
    return body


def _plain_chain_end(body, pos):
    """pos is at `if (`; returns the index after the whole if / else-if / else chain (blocks only)."""
    m = re.compile(r'if\s*\(').match(body, pos)
    if not m:
        raise ExtractionBroken("malformed if chain")
    cp = match_close(body, m.end() - 1, '(', ')')
    mo = re.compile(r'\s*\{').match(body, cp + 1)
    if not mo:
        raise ExtractionBroken("if with a declaration in its condition but without a block")
    end = match_close(body, mo.end() - 1) + 1
    me = re.compile(r'\s*else\s*\{').match(body, end)
    mei = re.compile(r'\s*else\s+(?=if\s*\()').match(body, end)
    if me:
        return match_close(body, me.end() - 1) + 1
    if mei:
        return _plain_chain_end(body, mei.end())
    return end


def if_with_declaration(ex, body):
    """C++ `if (auto x = e) {..} else ..` -> `{ auto x = e; if (x) {..} else .. }`: the declared name is in scope in
    every branch of the chain and nowhere after it, as in C++."""
    rx = re.compile(r'\bif\s*\(\s*((?:const\s+)?auto\s*\*?\s*(\w+)\s*=\s*)')
    n = 0
    pos = 0
    while True:
        m = rx.search(body, pos)
        if not m:
            break
        op = body.index('(', m.start())
        cp = match_close(body, op, '(', ')')
        init = body[m.end():cp]
        if ';' in init:
            raise ExtractionBroken("if with init-statement and condition: not supported")
        end = _plain_chain_end(body, m.start())
        name = m.group(2)
        decl = re.sub(r'\*', '', m.group(1))
        body = (body[:m.start()] + '{ ' + decl + init + '; if (' + name + ')' +
                body[cp + 1:end] + ' }' + body[end:])
        pos = m.start() + 2
        n += 1
    ex.rules_fired.append(('if-with-declaration', n))
    return body


COMMON_RULES = [
    Rule('nullptr', r'\bnullptr\b', '((void*)0)'),
    Rule('std::size_t', r'\bstd::size_t\b', 'size_t'),
    Rule('std::uintptr_t', r'\bstd::uintptr_t\b', 'uintptr_t'),
    Rule('static_cast', r'\bstatic_cast<([^<>]+)>\(', r'(\1)('),
    Rule('(std::min)', r'\(std::min\)\(', 'YV_MIN('),
    Rule('(std::max)', r'\(std::max\)\(', 'YV_MAX('),
    Rule('using-namespace', r'\busing\s+namespace\s+[\w:]+\s*;', ''),
]


# ----------------------------------------------------------------------------
# weaving contract text into the body

_LOOP_RE = re.compile(r'\b(for|while)\s*\(')


def loop_headers(body):
    """[(keyword, idx_of_keyword, idx_after_closing_paren)] in textual order,
    `do ... while(...)` tails excluded (none in the code base)."""
    res = []
    for m in _LOOP_RE.finditer(body):
        op = m.end() - 1
        cp = match_close(body, op, '(', ')')
        res.append((m.group(1), m.start(), cp + 1))
    return res


def weave(ex, loops=None, before_loop=None, at_start='', at_end='',
          anchors=None, expect_loops=None):
    """loops: {ordinal: contract text} inserted between the loop header and its
    body.  before_loop: {ordinal: ghost statements}.  anchors: list of
    (regex, text, where) with where in {'before','after'}; each regex must
    match exactly once."""
    body = ex.body
    hdrs = loop_headers(body)
    if expect_loops is not None and len(hdrs) != expect_loops:
        raise ExtractionBroken(
            "%s: %d loops found, the unit's loop-contract table expects %d" %
            (ex.where(), len(hdrs), expect_loops))
    inserts = []
    for k, text in (loops or {}).items():
        if k >= len(hdrs):
            raise ExtractionBroken("no loop #%d in %s" % (k, ex.where()))
        inserts.append((hdrs[k][2], '\n' + text + '\n'))
    for k, text in (before_loop or {}).items():
        if k >= len(hdrs):
            raise ExtractionBroken("no loop #%d in %s" % (k, ex.where()))
        inserts.append((hdrs[k][1], text + '\n'))
    for (rx, text, where) in (anchors or []):
        ms = list(re.finditer(rx, body, re.S))
        if len(ms) != 1:
            raise ExtractionBroken(
                "ghost anchor /%s/ matched %d times in %s" %
                (rx, len(ms), ex.where()))
        pos = ms[0].start() if where == 'before' else ms[0].end()
        inserts.append((pos, '\n' + text + '\n'))
    for pos, text in sorted(inserts, key=lambda t: -t[0]):
        body = body[:pos] + text + body[pos:]
    ex.body = at_start + body + at_end
    return ex


def norm_ws(s):
    return re.sub(r'\s+', ' ', s).strip()


# ----------------------------------------------------------------------------
# fragment helpers and structured rewrite rules

def fragment_in_function(rel, within, start_regex, kind, open_regex=None):
    """A fragment of function `within` starting at the first match of
    start_regex.
      kind='if-else'  : start_regex matches `if (...) {`; the fragment is the
                        whole if / else statement.
      kind='to-block' : the fragment extends to the end of the block opened by
                        the first match of open_regex after the start."""
    fn = find_function(rel, within)
    src = fn.body
    base_line = fn.line + fn.header.count('\n')
    ms = re.search(start_regex, src, re.S)
    if not ms:
        raise ExtractionBroken("fragment start /%s/ not found in %s" % (start_regex, fn.where()))
    s = ms.start()
    if kind == 'if-else':
        ob = ms.end() - 1
        if src[ob] != '{':
            raise ExtractionBroken("if-else fragment: start regex must end at '{'")
        e = match_close(src, ob) + 1
        m2 = re.compile(r'\s*else\s*(if\s*\([^{]*\)\s*)?\{', re.S).match(src, e)
        while m2:
            e = match_close(src, m2.end() - 1) + 1
            m2 = re.compile(r'\s*else\s*(if\s*\([^{]*\)\s*)?\{', re.S).match(src, e)
    elif kind == 'to-block':
        mo = re.compile(open_regex, re.S).search(src, ms.end())
        if not mo or src[mo.end() - 1] != '{':
            raise ExtractionBroken("fragment block /%s/ not found in %s" % (open_regex, fn.where()))
        e = match_close(src, mo.end() - 1) + 1
    else:
        raise ValueError(kind)
    return Extracted(rel, '', src[s:e], base_line + src.count('\n', 0, s),
                     base_line + src.count('\n', 0, e))


def range_for_by_ref(elem_type, min_count=0):
    """`for ([const] auto& x : V) { ... }`  ->  index loop over the shim vector
    V with `x` an lvalue macro for the element, undefined again after the
    loop's closing brace ([stmt.ranged])."""
    rx = re.compile(r'for\s*\(\s*(const\s+)?auto&\s+(\w+)\s*:\s*([\w.>:-]+)\s*\)\s*\{')

    def rule(ex, body):
        n = 0
        pos = 0
        while True:
            m = rx.search(body, pos)
            if not m:
                break
            ob = m.end() - 1
            cb = match_close(body, ob)
            x, v = m.group(2), m.group(3)
            const = m.group(1) or ''
            head = ('for (size_t yv_i_%s = 0; yv_i_%s < VEC_SIZE(%s); ++yv_i_%s) {\n'
                    '%s%s *const %s_p = &%s.data[yv_i_%s];\n#define %s (*%s_p)\n'
                    % (x, x, v, x, const, elem_type, x, v, x, x, x))
            body = (body[:m.start()] + head + body[ob + 1:cb] + '}\n#undef %s\n' % x
                    + body[cb + 1:])
            pos = m.start() + len(head)
            n += 1
        if n < min_count:
            raise ExtractionBroken("range-for-by-ref fired %d times (expected >= %d) in %s"
                                   % (n, min_count, ex.where()))
        ex.rules_fired.append(('range-for-by-reference', n))
        return body
    return rule


def ref_param(name, min_count=1):
    """A C++ reference parameter `T& name` becomes the pointer parameter
    `name_p`; every use of the name as a whole identifier (not a member name
    after . or ->) is replaced by (*name_p)."""
    return Rule('reference parameter %s -> (*%s_p)' % (name, name),
                r'(?<![\.>\w])%s\b(?!\s*\()' % re.escape(name), '(*%s_p)' % name, min_count)


def method_call(obj_regex, method, build, name=None, min_count=0):
    """Rewrite `<obj>.method(args...)` with balanced-parenthesis argument
    parsing.  build(obj_text, [args]) -> replacement text."""
    rx = re.compile(r'(%s)\.%s\(' % (obj_regex, re.escape(method)))

    def rule(ex, body):
        n = 0
        pos = 0
        while True:
            m = rx.search(body, pos)
            if not m:
                break
            op = m.end() - 1
            cp = match_close(body, op, '(', ')')
            args = [a.strip() for a in split_top(body[op + 1:cp])] if body[op + 1:cp].strip() else []
            new = build(m.group(1), args)
            body = body[:m.start()] + new + body[cp + 1:]
            pos = m.start() + len(new)
            n += 1
        if n < min_count:
            raise ExtractionBroken("rule '%s' fired %d times (expected >= %d) in %s"
                                   % (name or method, n, min_count, ex.where()))
        ex.rules_fired.append((name or ('.%s()' % method), n))
        return body
    return rule


def _chain_end(body, pos):
    """pos is at `if constexpr (`; returns the index after the whole if / else-if / else chain."""
    m = re.compile(r'if\s+constexpr\s*\(').match(body, pos)
    if not m:
        raise ExtractionBroken("malformed else-if chain")
    cp = match_close(body, m.end() - 1, '(', ')')
    mo = re.compile(r'\s*\{').match(body, cp + 1)
    if not mo:
        raise ExtractionBroken("if constexpr without block")
    end = match_close(body, mo.end() - 1) + 1
    me = re.compile(r'\s*else\s*\{').match(body, end)
    mei = re.compile(r'\s*else\s+(?=if\s+constexpr\s*\()').match(body, end)
    if me:
        return match_close(body, me.end() - 1) + 1
    if mei:
        return _chain_end(body, mei.end())
    return end


def eval_if_constexpr(cond_eval, min_count=0):
    """Partial evaluation of `if constexpr (C) {A} [else {B}]` for one
    configuration: cond_eval(normalised C) -> True / False (unknown conditions
    raise ExtractionBroken).  The selected branch is kept verbatim as a plain
    block, the other one is dropped (and recorded)."""
    rx = re.compile(r'\bif\s+constexpr\s*\(')

    def rule(ex, body):
        n = 0
        pos = 0
        while True:
            m = rx.search(body, pos)
            if not m:
                break
            op = m.end() - 1
            cp = match_close(body, op, '(', ')')
            cond = norm_ws(body[op + 1:cp])
            val = cond_eval(cond)
            if val is None:
                raise ExtractionBroken("if constexpr (%s): condition not known to the partial evaluator in %s" % (cond, ex.where()))
            mo = re.compile(r'\s*\{').match(body, cp + 1)
            if not mo:
                raise ExtractionBroken("if constexpr without block in %s" % ex.where())
            ob = mo.end() - 1
            cb = match_close(body, ob)
            then_txt = body[ob:cb + 1]
            end = cb + 1
            else_txt = ''
            me = re.compile(r'\s*else\s*\{').match(body, end)
            mei = re.compile(r'\s*else\s+(?=if\s+constexpr\s*\()').match(body, end)
            if me:
                eob = me.end() - 1
                ecb = match_close(body, eob)
                else_txt = body[eob:ecb + 1]
                end = ecb + 1
            elif mei:
                # else if constexpr (...) {...} [else ...]: the else branch is the rest of the chain
                cend = _chain_end(body, mei.end())
                else_txt = '{' + body[mei.end():cend] + '}'
                end = cend
            elif re.compile(r'\s*else\b').match(body, end):
                raise ExtractionBroken("if constexpr ... else without block in %s" % ex.where())
            keep = then_txt if val else (else_txt or '{ }')
            ex.dropped.append('if constexpr (%s) evaluated %s for this configuration: %s branch dropped'
                              % (cond, val, 'else' if val else 'then'))
            body = body[:m.start()] + keep + body[end:]
            pos = m.start()
            n += 1
        if n < min_count:
            raise ExtractionBroken("if-constexpr rule fired %d times (expected >= %d) in %s" % (n, min_count, ex.where()))
        ex.rules_fired.append(('if constexpr partial evaluation', n))
        return body
    return rule


def range_for_ptr(elem_type='type_id', min_count=0):
    """`for (auto& x : range{first, last}) {...}` (detail::range over a pointer pair) -> pointer loop with x an
    lvalue macro for *x_p, undefined after the loop's closing brace."""
    rx = re.compile(r'for\s*\(\s*(?:const\s+)?auto&?\s+(\w+)\s*:\s*(?:detail::)?range\s*\{\s*([^,{}]+?)\s*,\s*([^{}]+?)\s*\}\s*\)\s*\{')

    def rule(ex, body):
        n = 0
        pos = 0
        while True:
            m = rx.search(body, pos)
            if not m:
                break
            ob = m.end() - 1
            cb = match_close(body, ob)
            x, a, b = m.group(1), m.group(2), m.group(3)
            head = ('for (%s *%s_p = %s; %s_p != %s; ++%s_p) {\n#define %s (*%s_p)\n' % (elem_type, x, a, x, b, x, x, x))
            body = body[:m.start()] + head + body[ob + 1:cb] + '}\n#undef %s\n' % x + body[cb + 1:]
            pos = m.start() + len(head)
            n += 1
        if n < min_count:
            raise ExtractionBroken("range-for over range{first,last} fired %d times (expected >= %d) in %s" % (n, min_count, ex.where()))
        ex.rules_fired.append(('range-for over detail::range{first, last}', n))
        return body
    return rule


def vector_locals(cpp_type_regex, c_type, min_count=0, max_count=None):
    """`std::vector<T> a, b;` -> one empty shim vector per declarator."""
    rx = re.compile(r'\bstd::vector<\s*%s\s*>\s+(\w+(?:\s*,\s*\w+)*)\s*;' % cpp_type_regex)

    def rule(ex, body):
        n = [0]

        def rep(m):
            n[0] += 1
            return ' '.join('%s %s; %s.n = 0;' % (c_type, v.strip(), v.strip()) for v in m.group(1).split(','))
        body = rx.sub(rep, body)
        if n[0] < min_count or (max_count is not None and n[0] > max_count):
            raise ExtractionBroken("vector-local rule fired %d times (expected %s..%s) in %s" % (n[0], min_count, max_count, ex.where()))
        ex.rules_fired.append(('std::vector<...> locals -> empty shim vectors', n[0]))
        return body
    return rule


def inline_using_aliases(ex, body):
    """`using name = type-expression;` local alias declarations are removed and
    every later use of the alias is replaced by the (parenthesis-free) type expression."""
    n = 0
    while True:
        m = re.search(r'\busing\s+(\w+)\s*=\s*([^;]+);', body)
        if not m:
            break
        name, rhs = m.group(1), norm_ws(m.group(2))
        rest = body[m.end():]
        rest = re.sub(r'(?<![\w:])%s\b' % re.escape(name), lambda _m: rhs, rest)
        body = body[:m.start()] + rest
        n += 1
    ex.rules_fired.append(('local using-alias inlined', n))
    return body


C_KEYWORDS = {'if', 'else', 'for', 'while', 'return', 'break', 'continue', 'const', 'size_t', 'uintptr_t', 'type_id',
              'struct', 'static', 'inline', 'void', 'int', 'bool', '_Bool', 'sizeof', 'do', 'switch', 'case', 'default', '__auto_type'}


def nonlocal_assignments(body, params=()):
    """Syntactic frame check for the (pointer-write free) call-path functions: every assignment target must be
    a local declared in the body (or a parameter passed by value).  Returns the offending targets: identifiers
    that are assigned / incremented but never declared, and stores through pointers or members."""
    txt = re.sub(r'"(?:[^"\\]|\\.)*"', '""', body)
    declared = set(params)
    for m in re.finditer(r'(?:\b(?:const\s+)?(?:__auto_type|auto|std::size_t|size_t|std::uintptr_t|uintptr_t|type_id|bool|_Bool|int|const\s+uintptr_t\s*\*|const\s+std::uintptr_t\s*\*)\s*\**\s*)(\w+(?:\s*,\s*\w+)*)\s*(?:=|;)', txt):
        for v in m.group(1).split(','):
            declared.add(v.strip())
    bad = []
    # plain identifier targets
    for m in re.finditer(r'(?<![\w.>\]\)])(\w+)\s*(?:[-+*/|&^]?=(?!=)|\+\+|--)', txt):
        v = m.group(1)
        if v in C_KEYWORDS or v in declared or v.isdigit():
            continue
        bad.append(v)
    for m in re.finditer(r'(?:\+\+|--)\s*(\w+)\b', txt):
        v = m.group(1)
        if v not in declared and v not in C_KEYWORDS:
            bad.append(v)
    # stores through pointers / members / this
    for m in re.finditer(r'(\*\s*\w+|\w+\s*(?:->|\.)\s*\w+|\w+\s*\[[^\]]*\])\s*(?:[-+*/|&^]?=(?!=)|\+\+|--)', txt):
        bad.append(norm_ws(m.group(1)))
    return sorted(set(bad))
