// Replay driver for static_list: builds the verifier's list with the REAL
// detail::static_list<T> (push_back in the given order), applies the operation
// and compares iteration / size / empty with a std::vector model.  A broken
// link may only become observable later, so every continuation of up to two
// further operations (remove any registered item / push any unregistered one /
// clear) is explored as well, each on a freshly built list.
// stdin: pool n0 seq0[0..n0) op arg      (op: 0 push_back, 1 remove, 2 clear)
#include <yorel/yomm2/detail/static_list.hpp>
#include <iostream>
#include <vector>
#include <algorithm>
#include <memory>
using yorel::yomm2::detail::static_list;
struct item : static_list<item>::static_link { int id; };
struct op_t { int op, arg; };
static const char* opname[] = {"push_back", "remove", "clear"};

static bool same(static_list<item>& l, const std::vector<int>& model, std::string& msg) {
    std::vector<int> got; size_t guard = 0;
    for (auto& it : l) { got.push_back(it.id); if (++guard > 100) break; }
    size_t sz = 0; { size_t g = 0; for (auto i = l.begin(); i != l.end() && g < 100; ++i, ++g) ++sz; }
    bool ok = got == model && sz == model.size() && l.empty() == model.empty();
    if (!ok) {
        msg = "catalog enumerates [";
        for (auto g : got) msg += " " + std::to_string(g);
        msg += " ] empty=" + std::to_string(l.empty()) + "; live registrations are [";
        for (auto g : model) msg += " " + std::to_string(g);
        msg += " ]";
    }
    return ok;
}

// returns true if the real list agrees with the model after every step
static bool run(size_t pool, const std::vector<int>& seq, const std::vector<op_t>& ops, std::string& msg) {
    auto items = std::make_unique<item[]>(16);
    for (int i = 0; i < 16; ++i) items[i].id = i;
    auto lp = std::make_unique<static_list<item>>();
    lp->clear();
    auto& l = *lp;
    std::vector<int> model;
    for (auto s : seq) { l.push_back(items[s]); model.push_back(s); }
    if (!same(l, model, msg)) { msg = "after building: " + msg; return false; }
    for (size_t k = 0; k < ops.size(); ++k) {
        auto o = ops[k];
        if (o.op == 0) { l.push_back(items[o.arg]); model.push_back(o.arg); }
        else if (o.op == 1) { l.remove(items[o.arg]); model.erase(std::find(model.begin(), model.end(), o.arg)); }
        else { l.clear(); model.clear(); }
        if (!same(l, model, msg)) {
            std::string h = "after";
            for (size_t j = 0; j <= k; ++j) h += std::string(" ") + opname[ops[j].op] + "(" + (ops[j].op == 2 ? "" : std::to_string(ops[j].arg)) + ")";
            msg = h + ": " + msg;
            return false;
        }
    }
    return true;
}

static std::vector<op_t> continuations(size_t pool, std::vector<int> model) {
    std::vector<op_t> r;
    for (size_t k = 0; k < pool; ++k)
        r.push_back({std::find(model.begin(), model.end(), (int)k) == model.end() ? 0 : 1, (int)k});
    r.push_back({2, 0});
    return r;
}
static std::vector<int> apply(std::vector<int> m, op_t o) {
    if (o.op == 0) m.push_back(o.arg); else if (o.op == 1) m.erase(std::find(m.begin(), m.end(), o.arg)); else m.clear();
    return m;
}

int main() {
    size_t pool, n0; if (!(std::cin >> pool >> n0)) return 2;
    std::vector<int> seq(n0); for (auto& s : seq) std::cin >> s;
    op_t first; std::cin >> first.op >> first.arg;
    std::string msg;
    std::vector<op_t> ops{first};
    bool ok = run(pool, seq, ops, msg);
    auto m1 = apply(seq, first);
    if (ok) for (auto o2 : continuations(pool, m1)) {
        ops = {first, o2};
        if (!(ok = run(pool, seq, ops, msg))) break;
        auto m2 = apply(m1, o2);
        for (auto o3 : continuations(pool, m2)) {
            ops = {first, o2, o3};
            if (!(ok = run(pool, seq, ops, msg))) break;
        }
        if (!ok) break;
    }
    if (ok) std::cout << "real code behaves like the model on this input and on every continuation of two more operations\n";
    else std::cout << msg << "\nREPRODUCED on real code\n";
    return 0;
}
