// Replay driver: rebuilds the verifier's counterexample with the real
// generic_compiler types and calls the REAL compiler<Policy>::is_more_specific /
// is_base from /repo/include.   stdin: n, then per position: a b cov(a,b) cov(b,a)
#include <yorel/yomm2/core.hpp>
#include <yorel/yomm2/detail/compiler.hpp>
#include <iostream>
#include <map>
#include <string>

using namespace yorel::yomm2;
using namespace yorel::yomm2::detail;
using comp = compiler<default_policy>;

int main(int argc, char** argv) {
    std::string fn = argc > 1 ? argv[1] : "is_more_specific";
    size_t n;
    if (!(std::cin >> n)) return 2;
    std::map<unsigned long long, generic_compiler::class_> classes;
    std::vector<unsigned long long> a(n), b(n);
    std::vector<int> cab(n), cba(n);
    for (size_t k = 0; k < n; ++k) {
        std::cin >> a[k] >> b[k] >> cab[k] >> cba[k];
        classes[a[k]]; classes[b[k]];
    }
    // cov(o, x): x is in o's covariant set
    for (size_t k = 0; k < n; ++k) {
        if (cab[k]) classes[a[k]].covariant_classes.insert(&classes[b[k]]);
        if (cba[k]) classes[b[k]].covariant_classes.insert(&classes[a[k]]);
    }
    generic_compiler::definition A, B;
    for (size_t k = 0; k < n; ++k) {
        A.vp.push_back(&classes[a[k]]);
        B.vp.push_back(&classes[b[k]]);
    }
    // facts as the real data structure answers them (equal values at several
    // positions may merge facts; re-read them)
    bool any_base = false, any_derived = false, all_ok = true, any_diff = false;
    for (size_t k = 0; k < n; ++k) {
        auto ca = A.vp[k], cb = B.vp[k];
        bool c_ab = ca->covariant_classes.count(cb) != 0;
        bool c_ba = cb->covariant_classes.count(ca) != 0;
        if (fn == "is_more_specific" && ca != cb && c_ab && c_ba) {
            std::cout << "input violates antisymmetry at position " << k << ": not a legal class graph\n";
            return 0;
        }
        if (ca != cb && c_ab) any_base = true;
        if (ca != cb && c_ba) any_derived = true;
        if (!(ca == cb || c_ab)) all_ok = false;
        if (ca != cb) any_diff = true;
    }
    bool real, spec;
    if (fn == "is_more_specific") {
        real = comp::is_more_specific(&A, &B);
        spec = !any_base && any_derived;
    } else {
        real = comp::is_base(&A, &B);
        spec = all_ok && any_diff;
    }
    std::cout << fn << ": real code returns " << real << ", property requires " << spec << "\n";
    if (real != spec) std::cout << "REPRODUCED on real code\n";
    return 0;
}
