// Replay driver for compiler<Policy>::best: realises the verifier's relation
// "definition i is more specific than definition j" with real
// generic_compiler::class_ / definition objects (one virtual position per
// related pair: i's class derives from j's there, every other candidate has an
// unrelated class), then calls the REAL best() from /repo/include in the
// verifier's candidate order and evaluates P1..P4 with the REAL
// is_more_specific.
// stdin: nc n order[0..n) dom[nc][nc]
#include <yorel/yomm2/core.hpp>
#include <yorel/yomm2/detail/compiler.hpp>
#include <iostream>
#include <deque>
#include <algorithm>

using namespace yorel::yomm2;
using namespace yorel::yomm2::detail;
using comp = compiler<default_policy>;
using def = generic_compiler::definition;
using cls = generic_compiler::class_;

int main() {
    size_t nc, n;
    if (!(std::cin >> nc >> n)) return 2;
    std::vector<size_t> order(n);
    for (auto& o : order) std::cin >> o;
    std::vector<std::vector<int>> dom(nc, std::vector<int>(nc));
    for (auto& r : dom) for (auto& v : r) std::cin >> v;
    std::deque<cls> classes;
    std::vector<def> defs(nc);
    auto fresh = [&]() { classes.emplace_back(); auto c = &classes.back(); c->covariant_classes.insert(c); return c; };
    size_t positions = 0;
    for (size_t i = 0; i < nc; ++i)
        for (size_t j = 0; j < nc; ++j)
            if (i != j && dom[i][j]) {
                ++positions;
                auto base = fresh(), derived = fresh();
                base->covariant_classes.insert(derived);
                for (size_t c = 0; c < nc; ++c)
                    defs[c].vp.push_back(c == i ? derived : c == j ? base : fresh());
            }
    if (positions == 0)
        for (size_t c = 0; c < nc; ++c) defs[c].vp.push_back(fresh());
    for (size_t i = 0; i < nc; ++i)
        for (size_t j = 0; j < nc; ++j)
            if (i != j && comp::is_more_specific(&defs[i], &defs[j]) != (dom[i][j] != 0)) {
                std::cout << "cannot realise the relation (pair " << i << "," << j << ")\n";
                return 0;
            }
    std::vector<const def*> cands;
    for (auto o : order) cands.push_back(&defs[o]);
    auto r = comp::best(cands);
    std::cout << "candidates (in order):";
    for (auto o : order) std::cout << " d" << o;
    std::cout << "\nmore-specific pairs:";
    for (size_t i = 0; i < nc; ++i) for (size_t j = 0; j < nc; ++j) if (i != j && dom[i][j]) std::cout << " d" << i << "<d" << j;
    std::cout << "\nreal best() returns:";
    for (auto d : r) std::cout << " d" << (d - &defs[0]);
    std::cout << "\n";
    bool bad = false;
    if ((r.empty()) != (n == 0)) { std::cout << "P3 violated\n"; bad = true; }
    for (size_t i = 0; i < r.size(); ++i) {
        if (std::find(cands.begin(), cands.end(), r[i]) == cands.end()) { std::cout << "P4 violated\n"; bad = true; }
        for (size_t j = 0; j < i; ++j) if (r[i] == r[j]) { std::cout << "P4 (duplicates) violated\n"; bad = true; }
    }
    if (r.size() == 1)
        for (auto c : cands)
            if (c != r[0] && !comp::is_more_specific(r[0], c)) {
                std::cout << "P1 violated: single result d" << (r[0] - &defs[0]) << " is not more specific than candidate d" << (c - &defs[0]) << "\n";
                bad = true;
            }
    for (auto d : cands) {
        bool all = true;
        for (auto c : cands) if (c != d && !comp::is_more_specific(d, c)) all = false;
        if (all && !(r.size() == 1 && r[0] == d)) { std::cout << "P2 violated: d" << (d - &defs[0]) << " dominates but is not the single result\n"; bad = true; }
    }
    if (bad) std::cout << "REPRODUCED on real code\n";
    else std::cout << "real code satisfies P1-P4 on this input\n";
    return 0;
}
