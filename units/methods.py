"""compiler<Policy>::augment_methods (compiler.hpp) run on concrete registries - bounded.

C15 (update time): a method parameter or a definition parameter whose class id is not registered is reported once as
unknown_class_error carrying that id, and update does not complete.  Otherwise (what the later phases rely on): method i
of the compiler is method i of the catalog, its virtual parameter classes are the registered classes of its ids in order
(through Policy::type_index: C10), it has one slot per virtual parameter, its definitions are the catalog's in order
with their classes, indexes and function addresses, the two error entries carry the method's error functions, and
every class lists in used_by_vp exactly the (method, parameter) pairs declared on it with the right parameter number.
"""
import re

from engine import extract as X
from engine.core import Job
from units.augment import auto_ref_locals
from units.tables import range_loops

REL = 'include/yorel/yomm2/detail/compiler.hpp'

TEXT = r'''
#include "yv.h"
#define NCLS 4
#define NM 3
#define NSPEC 3
#define MAXAR 3
#define NUSE 12
typedef struct cclass cclass; typedef struct cmethod cmethod;
typedef struct { cmethod *method; size_t param; } parameter;
typedef struct { parameter data[NUSE]; size_t n; } vec_param;
struct cclass { size_t id; vec_param used_by_vp; };
typedef struct { cclass *data[MAXAR]; size_t n; } vec_classp;
typedef struct { size_t data[MAXAR]; size_t n; } vec_size;
typedef struct cdefinition_info { type_id type; void *pf; type_id *vp_begin, *vp_end; } cdefinition_info;
typedef struct { cdefinition_info *data; size_t n; } list_definition_info;
typedef struct cmethod_info { type_id *vp_begin, *vp_end; list_definition_info specs; void *ambiguous, *not_implemented; } cmethod_info;
#define METHOD_ARITY(m) ((size_t)((m).vp_end - (m).vp_begin))
typedef struct { cmethod_info *data; size_t n; } list_method_info;
list_method_info yv_policy_methods;
typedef struct cdefinition { const cdefinition_info *info; vec_classp vp; uintptr_t pf; size_t method_index, spec_index; } cdefinition;
typedef struct { cdefinition data[NSPEC]; size_t n; } vec_def;
struct cmethod { cmethod_info *info; vec_classp vp; vec_def specs; vec_size slots; cdefinition ambiguous, not_implemented; };
typedef struct { cmethod data[NM]; size_t n; } vec_method;
vec_method methods;
#define NKEY 16
cclass *class_map_slots[NKEY];
typedef struct cclass class_;
static cclass **yv_map_find(type_id key) { __CPROVER_assert(key < NKEY, "harness: key range"); __CPROVER_assume(key < NKEY); return class_map_slots[key] ? &class_map_slots[key] : (cclass **)0; }   /* unordered_map::find: absent (or null) entry = end() */
static cclass **yv_map_at(type_id key) { __CPROVER_assert(key < NKEY, "harness: key range"); __CPROVER_assume(key < NKEY); return &class_map_slots[key]; }
#define YV_TYPE_INDEX(t) ((t) & 15)       /* ids below 16 are their own index; id + 16 is a second id of the same class */
static void cp_push(vec_classp *v, cclass *c) { __CPROVER_assert(v->n < MAXAR, "harness: arity capacity"); __CPROVER_assume(v->n < MAXAR); v->data[v->n++] = c; }
static void ubv_push(vec_param *v, cmethod *m, size_t p) { __CPROVER_assert(v->n < NUSE, "harness: used_by_vp capacity"); __CPROVER_assume(v->n < NUSE); v->data[v->n].method = m; v->data[v->n].param = p; ++v->n; }
typedef struct { int context; type_id type; } unknown_class_error;
size_t g_err_calls; type_id g_err_type;
static void policy_error_unknown_class(const unknown_class_error *e) { ++g_err_calls; g_err_type = e->type; }
#define yv_abort() do { __CPROVER_assert(CFG_UNKNOWN != 0 && g_err_calls == 1 && g_err_type == CFG_UNKNOWN, \
    "C15 an unregistered parameter class is reported once as unknown_class_error with its id before aborting (and only then)"); __CPROVER_assume(0); } while (0)

@LIFTED@
static void augment_methods(void)
{
@BODY@
}

cclass g_cls[NCLS]; cmethod_info g_mi[NM]; cdefinition_info g_di[NM][NSPEC]; type_id g_mvp[NM][MAXAR]; type_id g_dvp[NM][NSPEC][MAXAR]; char g_fn[NM][NSPEC + 2];
void h_methods(void)
{
    static const unsigned char cfg_arity[NM] = CFG_ARITY, cfg_nspec[NM] = CFG_NSPEC;
    static const type_id cfg_vp[NM][MAXAR] = CFG_VP;             /* ids of the method's virtual parameter classes */
    static const type_id cfg_dvp[NM][NSPEC][MAXAR] = CFG_DVP;    /* ids of each definition's parameter classes */
    size_t ncls = CFG_NCLS, nm = CFG_NM;
    for (size_t i = 0; i < NKEY; ++i) class_map_slots[i] = 0;
    for (size_t i = 0; i < NCLS; ++i) { g_cls[i].id = i + 1; g_cls[i].used_by_vp.n = 0; if (i < ncls) class_map_slots[i + 1] = &g_cls[i]; }
    for (size_t i = 0; i < NM; ++i) {
        for (size_t k = 0; k < MAXAR; ++k) g_mvp[i][k] = cfg_vp[i][k];
        g_mi[i].vp_begin = g_mvp[i]; g_mi[i].vp_end = g_mvp[i] + cfg_arity[i];
        g_mi[i].ambiguous = &g_fn[i][NSPEC]; g_mi[i].not_implemented = &g_fn[i][NSPEC + 1];
        g_mi[i].specs.data = g_di[i]; g_mi[i].specs.n = cfg_nspec[i];
        for (size_t s = 0; s < NSPEC; ++s) {
            for (size_t k = 0; k < MAXAR; ++k) g_dvp[i][s][k] = cfg_dvp[i][s][k];
            g_di[i][s].type = 100 + i * 10 + s; g_di[i][s].pf = &g_fn[i][s];
            g_di[i][s].vp_begin = g_dvp[i][s]; g_di[i][s].vp_end = g_dvp[i][s] + cfg_arity[i];
        }
    }
    yv_policy_methods.data = g_mi; yv_policy_methods.n = nm;
    methods.n = 0; g_err_calls = 0;

    augment_methods();

    __CPROVER_assert(CFG_UNKNOWN == 0, "C15 update does not complete when a method or definition parameter class is not registered");
    __CPROVER_assert(g_err_calls == 0, "no error is reported for a well-formed registry");
    __CPROVER_assert(methods.n == nm, "one compiler method per catalog entry");
    for (size_t i = 0; i < NM; ++i) {
        if (i >= nm) continue;
        cmethod *M = &methods.data[i];
        __CPROVER_assert(M->info == &g_mi[i], "method i of the compiler is method i of the catalog");
        __CPROVER_assert(M->vp.n == cfg_arity[i] && M->slots.n == cfg_arity[i], "one class and one slot per virtual parameter");
        for (size_t k = 0; k < MAXAR; ++k) if (k < cfg_arity[i])
            __CPROVER_assert(M->vp.data[k] == &g_cls[(cfg_vp[i][k] & 15) - 1], "C10 parameter k's class is the registered class of its id (through type_index), in order");
        __CPROVER_assert(M->ambiguous.pf == (uintptr_t)g_mi[i].ambiguous && M->not_implemented.pf == (uintptr_t)g_mi[i].not_implemented, "the error entries carry the method's own error functions");
        __CPROVER_assert(M->ambiguous.method_index == i && M->not_implemented.method_index == i && M->ambiguous.spec_index == cfg_nspec[i] && M->not_implemented.spec_index == cfg_nspec[i] + 1u,
                         "error entries are numbered after the definitions (the encoder relies on it)");
        __CPROVER_assert(M->specs.n == cfg_nspec[i], "one compiler definition per catalog entry");
        for (size_t s = 0; s < NSPEC; ++s) {
            if (s >= cfg_nspec[i]) continue;
            cdefinition *D = &M->specs.data[s];
            __CPROVER_assert(D->info == &g_di[i][s] && D->pf == (uintptr_t)g_di[i][s].pf && D->method_index == i && D->spec_index == s, "definition s of method i, its function and indexes, in catalog order");
            __CPROVER_assert(D->vp.n == cfg_arity[i], "a definition has one class per virtual parameter");
            for (size_t k = 0; k < MAXAR; ++k) if (k < cfg_arity[i])
                __CPROVER_assert(D->vp.data[k] == &g_cls[(cfg_dvp[i][s][k] & 15) - 1], "C10 the definition's class at k is the registered class of its id, in order");
        }
    }
    /* used_by_vp: exactly the declared (method, parameter) pairs, each once, on the parameter's class */
    for (size_t c = 0; c < NCLS; ++c) {
        size_t expect = 0;
        for (size_t i = 0; i < NM; ++i) for (size_t k = 0; k < MAXAR; ++k) {
            if (i >= nm || k >= cfg_arity[i] || (cfg_vp[i][k] & 15) != c + 1) continue;
            ++expect;
            size_t found = 0;
            for (size_t u = 0; u < g_cls[c].used_by_vp.n; ++u) if (g_cls[c].used_by_vp.data[u].method == &methods.data[i] && g_cls[c].used_by_vp.data[u].param == k) ++found;
            __CPROVER_assert(found == 1, "C04 the class lists the (method, parameter) pair declared on it exactly once, with the right parameter number (slot allocation iterates this list)");
        }
        __CPROVER_assert(g_cls[c].used_by_vp.n == expect, "C04 used_by_vp holds nothing else");
    }
#if CFG_UNKNOWN == 0
    YV_COVER(1, "augment_methods returns");
#endif
}
'''


def ptr_range_loops(ex, body):
    """`for (auto x : range{first, last}) {` -> pointer loop, x a copy of the element (by value as in the source)."""
    rx = re.compile(r'for\s*\(\s*auto\s+(\w+)\s*:\s*(?:detail::)?range\s*\{\s*([^,{}]+?)\s*,\s*([^{}]+?)\s*\}\s*\)\s*\{')
    n = [0]

    def rep(m):
        n[0] += 1
        x, a, b = m.group(1), m.group(2), m.group(3)
        return 'for (type_id *yv_p_%s = %s; yv_p_%s != %s; ++yv_p_%s) { type_id %s = *yv_p_%s;' % (x, a, x, b, x, x, x)
    body = rx.sub(rep, body)
    if n[0] != 2:
        raise X.ExtractionBroken('augment_methods: %d loops over range{vp_begin, vp_end} (expected 2)' % n[0])
    ex.rules_fired.append(('range-for by value over detail::range{first, last} -> pointer loop', n[0]))
    return body


def lift_lambdas(ex, body):
    """A local `auto f = [&](params) { ... };` becomes a file-scope function; the locals declared before it that it captures become
    file-scope variables assigned at the place of their declaration (the enclosing function is not re-entered)."""
    rx = re.compile(r'\bauto\s+(\w+)\s*=\s*\[&\]\s*\(([^)]*)\)\s*\{')
    lifted = []
    n = 0
    while True:
        m = rx.search(body)
        if not m:
            break
        ob = m.end() - 1
        cb = X.match_close(body, ob)
        lam = body[ob + 1:cb]
        rest = body[cb + 1:]
        if not rest.lstrip().startswith(';'):
            raise X.ExtractionBroken('lambda %s is not a plain local definition' % m.group(1))
        rest = rest.lstrip()[1:]
        before = body[:m.start()]
        globs = []

        def hoist(dm):
            ty, name, init = dm.group(1).strip(), dm.group(2), dm.group(3)
            if ty in ('auto', 'return') or not re.search(r'\b%s\b' % re.escape(name), lam):
                return dm.group(0)
            globs.append('%s %s;' % (ty, name))
            return '%s = %s;' % (name, init)
        before = re.sub(r'(?m)^[ \t]*((?:const\s+)?[\w:]+(?:\s*\*)?)\s+(\w+)\s*=\s*([^;{}]+);', hoist, before)
        rm = re.search(r'\breturn\s+([^;]+);', lam)
        ret = '__typeof__(%s)' % rm.group(1).strip() if rm else 'void'
        lifted.append('\n'.join(globs) + '\nstatic %s %s(%s)\n{%s}\n' % (ret, m.group(1), m.group(2), lam))
        body = before + rest
        n += 1
    ex.rules_fired.append(('local [&] lambda lifted to a file-scope function, captured locals to file scope', n))
    ex.lifted = 'YV_LIFT_BEGIN\n' + '\n'.join(lifted) + '\nYV_LIFT_END\n' if lifted else ''
    return ex.lifted + body


RULES = [
    X.drop_trace,
    lift_lambdas,
    X.Rule('using namespace', r'\busing\s+namespace\s+[\w:]+\s*;', ''),
    X.eval_if_constexpr(lambda c: {'has_facet<Policy,error_handler>': True, 'trace_enabled': False}.get(re.sub(r'\s+', '', c))),
    X.Rule('methods.resize(Policy::methods.size())', r'\bmethods\.resize\(Policy::methods\.size\(\)\);',
           '__CPROVER_assert(yv_policy_methods.n <= NM, "harness: methods capacity"); methods.n = yv_policy_methods.n; '
           'for (size_t yv_m = 0; yv_m < NM; ++yv_m) { methods.data[yv_m].vp.n = 0; methods.data[yv_m].specs.n = 0; methods.data[yv_m].slots.n = 0; }   /* value-initialised elements */', 1, 1),
    X.Rule('Policy::methods', r'\bPolicy::methods\b', 'yv_policy_methods'),
    X.Rule('methods.begin()', r'\bmethods\.begin\(\)', '(&methods.data[0])'),
    X.Rule('specs.begin()', r'\b(meth_iter->specs)\.begin\(\)', r'(&\1.data[0])'),
    X.Rule('reserve()', r'\b[\w.>-]+\.reserve\([^;]*\);', ''),
    X.Rule('slots.resize(n)', r'\b(meth_iter->slots)\.resize\(([^;]+)\);', r'__CPROVER_assert(\2 <= MAXAR, "harness: arity capacity"); \1.n = \2;', 1, 1),
    X.Rule('specs.resize(n)', r'\b(meth_iter->specs)\.resize\(([^;]+)\);', r'__CPROVER_assert(\2 <= NSPEC, "harness: definitions capacity"); \1.n = \2; for (size_t yv_d = 0; yv_d < NSPEC; ++yv_d) \1.data[yv_d].vp.n = 0;', 1, 1),
    X.Rule('x.arity()', r'\b(\w+)\.arity\(\)', r'METHOD_ARITY(\1)'),
    X.Rule('Policy::type_index', r'Policy::type_index\(', 'YV_TYPE_INDEX('),
    X.Rule('class_map[key]', r'\bclass_map\[((?:[^\[\]]|\[[^\]]*\])*)\]', r'(*yv_map_at(\1))'),
    X.Rule('auto it = class_map.find(key)', r'\bauto\s+(\w+)\s*=\s*class_map\.find\(((?:[^()]|\([^()]*\))*)\);', r'cclass **\1 = yv_map_find(\2);'),
    X.Rule('it != class_map.end()', r'\b(\w+)\s*([!=]=)\s*class_map\.end\(\)', r'\1 \2 0'),
    X.Rule('it->second', r'\b(\w+)->second\b', r'(*\1)'),
    X.Rule('Policy::error(error_type(e))', r'Policy::error\(error_type\((\w+)\)\)\s*;', r'policy_error_unknown_class(&\1);'),
    X.Rule('abort()', r'\babort\(\)\s*;', 'yv_abort();'),
    X.Rule('reinterpret_cast<uintptr_t>', r'\breinterpret_cast<\s*(?:std::)?uintptr_t\s*>\(', '(uintptr_t)('),
    X.Rule('vp.push_back(class)', r'\b((?:meth_iter|spec_iter)->vp)\.push_back\(', r'cp_push(&\1, ', 2, 2),
    X.Rule('used_by_vp.push_back({m, p})', r'\b(\w+->used_by_vp)\.push_back\(\{\s*([^,{}]+),\s*([^{}]+)\}\)', r'ubv_push(&\1, \2, \3)', 1, 1),
    X.Rule('x.size()', r'\b([\w.>-]+)\.size\(\)', r'VEC_SIZE(\1)'),
    ptr_range_loops,
    range_loops,
    X.Rule('const auto', r'\bconst\s+auto\s+(\w+)\s*=', r'const __auto_type \1 ='),
    X.split_auto_declarators,
] + X.COMMON_RULES


def extract():
    ex = X.find_function(REL, r'template<class Policy>\s*void\s+compiler<Policy>::augment_methods\(\)')
    X.apply_rules(ex, RULES)
    left = re.sub(r'__auto_type|__typeof__', '', ex.body)
    bad = re.findall(r'[^\n]*(?:\bauto\b|std::|Policy::|\.begin\(|\.end\(|reinterpret_cast)[^\n]*', left)
    if bad:
        raise X.ExtractionBroken('augment_methods: untranslated C++ left: %s' % bad[:3])
    lifted = ''
    mm = re.search(r'YV_LIFT_BEGIN(.*?)YV_LIFT_END', ex.body, re.S)
    if mm:
        lifted = mm.group(1)
        ex.body = ex.body[:mm.start()] + ex.body[mm.end():]
    return ex, TEXT.replace('@LIFTED@', lifted).replace('@BODY@', ex.body)


CONFIGS = {
    # name: (ncls, [(vp ids, [definition ids...])...], unknown id)
    'uni-and-multi': (3, [((1,), [(1,), (2,)]), ((1, 2), [(1, 2), (3, 2), (1, 3)]), ((2, 3, 1), [(2, 3, 1)])], 0),
    'no-definitions': (2, [((1,), []), ((2, 2), [])], 0),
    'same-class-twice': (2, [((1, 1), [(1, 1), (2, 1), (1, 2)]), ((2,), [(2,)])], 0),
    'second-ids': (3, [((17, 2), [(1, 18), (19, 2)]), ((3,), [(19,), (3,)])], 0),
    'many-parameters-one-class': (1, [((1, 1, 1), [(1, 1, 1)]), ((1, 1), [(1, 1)]), ((1,), [(1,), (1,)])], 0),
    'unknown-method-parameter': (2, [((1,), [(1,)]), ((1, 7), [(1, 2)])], 7),
    'unknown-first-parameter': (2, [((9,), [])], 9),
    'unknown-definition-parameter': (3, [((1, 2), [(1, 2), (3, 5)])], 5),
    'unknown-definition-parameter-of-second-method': (2, [((1,), [(2,)]), ((2,), [(2,), (6,)])], 6),
}


def registry_program(ncls, meths, unknown):
    """Real registry with one unregistered class U at the place the configuration names; the handler must be called once with
    unknown_class_error carrying U's id and update must not complete."""
    def cname(i):
        return 'U' if i == unknown else 'C%d' % i
    L = ['#include <yorel/yomm2/keywords.hpp>', '#include <iostream>', 'using namespace yorel::yomm2;']
    # one chain C1 <- C2 <- ... <- Cn <- U so that definitions on any later class compile; definitions that would not are left out
    for i in range(1, ncls + 1):
        L.append('struct C%d%s { virtual ~C%d() {} };' % (i, ' : C%d' % (i - 1) if i > 1 else '', i))
    L.append('struct U : C%d {};   // never registered' % ncls)

    def rank(i):
        return ncls + 1 if i == unknown else i
    L.append('register_classes(%s);' % ', '.join('C%d' % i for i in range(1, ncls + 1)))
    for mi, (vp, ds) in enumerate(meths):
        L.append('declare_method(int, m%d, (%s));' % (mi, ', '.join('virtual_<%s&>' % cname(i) for i in vp)))
        for d in ds:
            if any(rank(d[k]) < rank(vp[k]) for k in range(len(vp))):
                continue
            L.append('define_method(int, m%d, (%s)) { return 0; }' % (mi, ', '.join('%s&' % cname(i) for i in d)))
    L.append('struct stop {};')
    L.append('int main() { int reports = 0; bool right_id = false;')
    L.append('  default_policy::error = [&](const error_type& ev) { if (auto e = std::get_if<unknown_class_error>(&ev)) { ++reports; right_id = e->type == (type_id)&typeid(U); throw stop(); } };')
    L.append('  bool completed = false; try { update(); completed = true; } catch (const stop&) {}')
    L.append('  if (completed || reports != 1 || !right_id) { std::cout << "update completed=" << completed << " unknown_class_error reports=" << reports << " with U\'s id=" << right_id << "\\nREPRODUCED on real code\\n"; }')
    L.append('  else std::cout << "real library reports the unregistered class and does not complete update\\n"; return 0; }')
    return '\n'.join(L) + '\n'


def replay(job, res, ob):
    ncls, meths, unknown = job.cfg
    if not unknown or any(i > 16 for vp, ds in meths for i in list(vp) + [x for d in ds for x in d]):
        return {'reproduced': None, 'detail': 'no replay for this configuration', 'input': None}
    from engine import replay as R
    return R.run_generated_program('methods_replay', registry_program(ncls, meths, unknown),
                                   {'registered classes': ncls, 'methods (parameter class ids, definitions)': [[list(vp), [list(d) for d in ds]] for vp, ds in meths], 'unregistered id': unknown})


def jobs(tier):
    ex, c = extract()
    out = []
    for name, (ncls, meths, unknown) in CONFIGS.items():
        ar = [len(vp) for vp, _ in meths] + [0] * (3 - len(meths))
        ns = [len(ds) for _, ds in meths] + [0] * (3 - len(meths))
        vp = [list(v) + [0] * (3 - len(v)) for v, _ in meths] + [[0, 0, 0]] * (3 - len(meths))
        dvp = [[list(d) + [0] * (3 - len(d)) for d in ds] + [[0, 0, 0]] * (3 - len(ds)) for _, ds in meths] + [[[0, 0, 0]] * 3] * (3 - len(meths))

        def arr(x):
            return '{' + ','.join(arr(e) if isinstance(e, list) else str(e) for e in x) + '}'
        defs = ['CFG_NCLS=%d' % ncls, 'CFG_NM=%d' % len(meths), 'CFG_UNKNOWN=%d' % unknown, 'CFG_ARITY=' + arr(ar), 'CFG_NSPEC=' + arr(ns), 'CFG_VP=' + arr(vp), 'CFG_DVP=' + arr(dvp)]
        out.append(Job(unit='methods', config=name, c_text=c, entry='h_methods', kind='bounded', unwind=20, object_bits=10, defines=defs,
                       bound='augment_methods on concrete registries (%d of them): uni- and multi-methods, methods without definitions, a class used by several parameters, '
                             'second ids of a class under a many-to-one type_index, and an unregistered id in a method parameter / a definition parameter' % len(CONFIGS),
                       min_obligations=10, min_cover=0 if unknown else 1,   # unknown-id jobs: if the abort path is not taken the assertion after the call fails
                       functions=['%s compiler<Policy>::augment_methods sha256:%s' % (ex.where(), ex.sha())],
                       trusted=['std::unordered_map<type_index, class_*> as an array indexed by small keys; static_list of method_info / definition_info as arrays in catalog order',
                                'std::vector resize / push_back / begin; detail::range{first, last} as a pointer pair'],
                       assumptions=['ids are small integers; Policy::type_index as id & 15'],
                       extracted=[ex], props=['C15', 'C10', 'C04', 'C01'], timeout=300, replay=replay))
        out[-1].no_cross = True
        out[-1].cfg = (ncls, meths, unknown)
    return out
