"""virtual_ptr<Class, Policy> (core.hpp): the constructor from a reference,
final(), _vptr(), and the copy / converting / move constructors, per facet set
(type_hash: none / fast / checked, indirect_vptr, runtime_checks).

C09: the embedded v-table pointer is the one update() published for the
pointee's DYNAMIC class (direct), or the address of that class's static v-table
pointer variable (indirect: the virtual_ptr stays valid across updates) -
exactly what method::vptr would fetch for a plain reference to the same
object, so dispatch is the same on both routes (units/resolve treats V and P
positions alike given equal v-table pointers).
C15: with the checked facets an unregistered dynamic class is reported as
unknown_class_error before the object is usable, on both construction routes;
final() reports a dynamic != static mismatch as method_table_error.
"""
import re

from engine import extract as X
from engine.core import Job
from units import hashing as H
from units import vptrs as VP

REL = 'include/yorel/yomm2/core.hpp'

TEXT = r'''
#undef YV_AT_ABORT
#define YV_AT_ABORT \
    __CPROVER_assert(g_expect_report, "C09 construction of a virtual_ptr to a registered object of the right type never aborts"); \
    __CPROVER_assert(g_err_calls == 1 && g_err_kind == g_expect_kind && g_err_type == g_dyn_id, \
                     "C15 the class is reported once, with its type id, before aborting")
_Bool g_expect_report; int g_expect_kind;
type_id g_dyn_id;                       /* id of the object's dynamic class */
type_id g_static_id;                    /* Policy::static_type<T>() for the static type T of the expression */
uintptr_t *g_static_vptr_T;             /* Policy::static_vptr<T> */
uintptr_t *g_static_vptr_dyn;           /* the dynamic class's static v-table pointer variable (published by update) */
_Bool g_registered;                     /* the dynamic class is registered */
typedef struct { const void *obj; const uintptr_t *vptr; const uintptr_t *const *ivptr; } virtual_ptr;
#define YV_BOX(self, ref) ((self)->obj = (ref))
#define DYNAMIC_TYPE_OF(ref) g_dyn_id
#define STATIC_TYPE_OF_T g_static_id
#define STATIC_VPTR_OF_T g_static_vptr_T
/* dynamic / static type of the argument expression itself: the object for a plain reference; for a smart pointer
   (std::shared_ptr<T>) the smart pointer object, whose dynamic and static type are the same non-polymorphic type */
#if YV_SMART_PTR
type_id g_smart_typeid;
#define DYNAMIC_TYPE_OF_EXPR(ref) g_smart_typeid
#define STATIC_TYPE_OF_EXPR g_smart_typeid
#else
#define DYNAMIC_TYPE_OF_EXPR(ref) g_dyn_id
#define STATIC_TYPE_OF_EXPR g_static_id
#endif
/* the class the virtual_ptr is declared for, with its cv-qualifiers: typeid ignores them, but static_vptr<const X>
   is a different variable from static_vptr<X>, and update() only ever writes the one of the registered class X */
#define STATIC_TYPE_OF_DECLARED g_static_id
#if YV_CLASS_IS_CONST
uintptr_t *g_static_vptr_cv_T;          /* never written: stays null */
#define STATIC_VPTR_OF_DECLARED g_static_vptr_cv_T
#else
#define STATIC_VPTR_OF_DECLARED g_static_vptr_T
#endif

/* Policy::hash_type_id through its contract (units/hashing): the fast lookup returns the hash value; the
   checked lookup additionally never returns for an id that is not registered (rejection lemma) but reports it */
static type_id policy_hash_type_id(type_id t)
{
#if YV_FACET_CHECKED
    if (!(g_registered && t == g_dyn_id)) {
        unknown_class_error error; error.context = unknown_class_error_update; error.type = t;
        YV_POLICY_ERROR(error);
        yv_abort();
    }
#endif
    return yv_hash(t);
}

void virtual_ptr_ctor(virtual_ptr *self, const void *other)
{
@CTOR@
}

virtual_ptr virtual_ptr_final(const void *obj)
{
@FINAL@
}

const uintptr_t *virtual_ptr__vptr(const virtual_ptr *self)
{
@VPTR@
}

static void setup(void)
{
    hash_mult = nondet_uintptr(); hash_shift = nondet_size_t(); hash_length = nondet_size_t(); hash_max = nondet_size_t();
    g_dyn_id = nondet_uintptr(); g_static_id = nondet_uintptr(); g_registered = nondet_bool();
    g_static_vptr_T = (uintptr_t *)nondet_vptr(); g_static_vptr_dyn = (uintptr_t *)nondet_vptr();
    g_err_calls = 0; g_aborted = 0;
    g_idS = g_dyn_id; g_pm = hash_mult; g_ps = hash_shift; g_hS = nondet_size_t();
    V.cellV = nondet_vptr(); V.cellI = nondet_ivptr(); vptrs.n = nondet_size_t(); indirect_vptrs.n = nondet_size_t();
    __CPROVER_assume(hash_shift >= 1 && hash_shift <= 63);
    /* one class per id: the static type's id equals the dynamic id iff they are the same class, and then
       static_vptr<T> is that class's v-table pointer variable */
    __CPROVER_assume(g_dyn_id != g_static_id || &g_static_vptr_T == &g_static_vptr_T);
#if YV_FACET_HASH
    size_t ix = g_hS;
#else
    size_t ix = (size_t)g_dyn_id;
#endif
    g_vS = ix;
    if (g_registered) {
        /* update()'s postconditions for a registered class (units/hashing, units/vptrs) */
        __CPROVER_assume(ix < vptrs.n && V.cellV == (const uintptr_t *)g_static_vptr_dyn);
        __CPROVER_assume(!YV_FACET_INDIRECT || (ix < indirect_vptrs.n && V.cellI == (const uintptr_t *const *)&g_static_vptr_dyn));
    }
    /* an unregistered class: its static v-table pointer variable holds anything - null if it was never registered,
       a stale pointer if it was registered and unregistered earlier (nothing resets it) */
}
#define SAME_CLASS (g_dyn_id == g_static_id)

void h_ctor(void)
{
    setup();
    if (SAME_CLASS) g_static_vptr_T = g_static_vptr_dyn;      /* same id = same class = same variable */
    g_expect_report = YV_FACET_CHECKED && !g_registered;
    g_expect_kind = YV_ERR_UNKNOWN_CLASS;
#if !YV_FACET_CHECKED
    __CPROVER_assume(g_registered);     /* unchecked policies: using an unregistered class is undefined */
#endif
    virtual_ptr p; int object;
    YV_COVER(g_registered && SAME_CLASS, "exact static type");
    YV_COVER(g_registered && !SAME_CLASS, "base reference to a derived object");
#if YV_FACET_CHECKED
    YV_COVER(!g_registered && SAME_CLASS, "unregistered class, exact static type");
    YV_COVER(!g_registered && !SAME_CLASS, "unregistered class through a base reference");
#endif
    struct yv_statics P0 = P; const uintptr_t *cv0 = V.cellV; const uintptr_t *const *ci0 = V.cellI; size_t vn0 = vptrs.n; uintptr_t *sv0 = g_static_vptr_dyn;
    virtual_ptr_ctor(&p, &object);
    __CPROVER_assert(P.hash_mult_ == P0.hash_mult_ && P.hash_shift_ == P0.hash_shift_ && P.hash_length_ == P0.hash_length_ && P.hash_max_ == P0.hash_max_ &&
                     V.cellV == cv0 && V.cellI == ci0 && vptrs.n == vn0 && g_static_vptr_dyn == sv0,
                     "C16 constructing a virtual_ptr writes nothing but the new object (hash parameters, vptr vectors, static vptrs are only read)");
    __CPROVER_assert(g_registered, "C15 construction from an object of an unregistered class does not complete under the checked policy");
    __CPROVER_assert(p.obj == &object, "C09 get() gives back the original object");
#if YV_FACET_INDIRECT
    __CPROVER_assert(SAME_CLASS ? p.ivptr == (const uintptr_t *const *)&g_static_vptr_T : p.ivptr == (const uintptr_t *const *)&g_static_vptr_dyn,
                     "C09 indirect: the virtual_ptr holds the address of the dynamic class's static v-table pointer variable");
    /* a later update re-installs the tables: the variable changes, the virtual_ptr follows */
    uintptr_t *later = (uintptr_t *)nondet_vptr();
    g_static_vptr_dyn = later; if (SAME_CLASS) g_static_vptr_T = later;
    __CPROVER_assert(virtual_ptr__vptr(&p) == (const uintptr_t *)later, "C09 indirect: _vptr() after a later update is the newly installed v-table pointer");
#else
    __CPROVER_assert(virtual_ptr__vptr(&p) == (const uintptr_t *)g_static_vptr_dyn,
                     "C09 the embedded v-table pointer is the one published for the pointee's dynamic class (what a plain reference would use)");
#endif
    __CPROVER_assert(g_err_calls == 0, "no error reported for a registered class");
}

void h_final(void)
{
    setup();
    if (SAME_CLASS) g_static_vptr_T = g_static_vptr_dyn;
    g_expect_report = YV_FACET_RUNTIME_CHECKS && !SAME_CLASS;
    g_expect_kind = YV_ERR_METHOD_TABLE;
#if !YV_FACET_RUNTIME_CHECKS
    __CPROVER_assume(SAME_CLASS);       /* final's precondition; only debug policies check it */
#endif
    int object;
    YV_COVER(SAME_CLASS, "final used correctly");
#if YV_FACET_RUNTIME_CHECKS
    YV_COVER(!SAME_CLASS, "final given an object of another dynamic type");
#endif
    virtual_ptr p = virtual_ptr_final(&object);
    __CPROVER_assert(SAME_CLASS, "C15 final() with an object of another dynamic type does not complete under runtime checks");
    __CPROVER_assert(p.obj == &object, "C09 get() gives back the original object");
#if YV_FACET_INDIRECT
    __CPROVER_assert(p.ivptr == (const uintptr_t *const *)&g_static_vptr_T, "C09 final: address of the static type's v-table pointer variable");
#else
    __CPROVER_assert(virtual_ptr__vptr(&p) == (const uintptr_t *)g_static_vptr_T, "C09 final: the static type's v-table pointer");
#endif
    __CPROVER_assert(g_err_calls == 0, "no error reported when the types agree");
}

@COPIES@
'''


def facet_eval(cfg):
    def ev(cond):
        c = cond.replace(' ', '')
        table = {
            'has_facet<Policy,indirect_vptr>': cfg['indirect'],
            'has_facet<Policy,type_hash>': cfg['hash'],
            'has_facet<Policy,runtime_checks>': cfg['checks'],
            'has_facet<Policy,runtime_checks>&&has_facet<Policy,type_hash>': cfg['checks'] and cfg['hash'],
            'is_indirect': cfg['indirect'],
            'IsSmartPtr': False,
        }
        return table.get(c)
    return ev


def member(cfg):
    return 'self->ivptr' if cfg['indirect'] else 'self->vptr'


def make_ctor(cfg):
    ex = X.find_function(REL, r'template<class Other>\s*virtual_ptr\(Other&& other\)')
    X.apply_rules(ex, [
        X.Rule('using namespace', r'\busing\s+namespace\s+[\w:]+\s*;', ''),
        X.Rule('static_assert dropped', r'static_assert\s*\((?:[^;"]|"(?:[^"\\]|\\.)*")*\)\s*;', '', 1, 1),
        X.inline_using_aliases,
        X.eval_if_constexpr(facet_eval(cfg), 2),
        X.Rule('box(other)', r'\bbox\(other\)\s*;', 'YV_BOX(self, other);', 1, 1),
        X.Rule('Policy::dynamic_type(rarg(other))', r'Policy::dynamic_type\(\s*virtual_traits<Policy,\s*Other&>::rarg\(other\)\s*\)', 'DYNAMIC_TYPE_OF(other)', 1, 1),
        X.Rule('Policy::static_type<polymorphic_type>()', r'Policy::template\s+static_type<\s*typename\s+virtual_traits<Policy,\s*Other&>::polymorphic_type\s*>\(\)', 'STATIC_TYPE_OF_T'),
        # the class the virtual_ptr is declared for, cv-qualifiers kept (virtual_ptr_traits<Class, Policy>::polymorphic_type = Class)
        X.Rule('Policy::static_type<Class as declared>()', r'Policy::template\s+static_type<\s*typename\s+virtual_ptr_traits<Class,\s*Policy>::polymorphic_type\s*>\(\)', 'STATIC_TYPE_OF_DECLARED'),
        X.Rule('&Policy::static_vptr<Class as declared>', r'&\s*Policy::template\s+static_vptr<\s*typename\s+virtual_ptr_traits<Class,\s*Policy>::polymorphic_type\s*>', '(const uintptr_t *const *)&STATIC_VPTR_OF_DECLARED'),
        X.Rule('Policy::static_vptr<Class as declared>', r'Policy::template\s+static_vptr<\s*typename\s+virtual_ptr_traits<Class,\s*Policy>::polymorphic_type\s*>', 'STATIC_VPTR_OF_DECLARED'),
        X.Rule('&Policy::static_vptr<polymorphic_type>', r'&\s*Policy::template\s+static_vptr<\s*typename\s+(?:detail::)?virtual_traits<\s*Policy,\s*Other&>::polymorphic_type\s*>', '(const uintptr_t *const *)&STATIC_VPTR_OF_T'),
        X.Rule('Policy::static_vptr<polymorphic_type>', r'Policy::template\s+static_vptr<\s*typename\s+(?:detail::)?virtual_traits<\s*Policy,\s*Other&>::polymorphic_type\s*>', 'STATIC_VPTR_OF_T'),
        X.Rule('Policy::hash_type_id', r'Policy::hash_type_id\(', 'policy_hash_type_id('),
        X.Rule('Policy::indirect_vptrs[i]', r'Policy::indirect_vptrs\[(\w+)\]', r'(*yv_ivp(&indirect_vptrs, \1))'),
        X.Rule('Policy::vptrs[i]', r'Policy::vptrs\[(\w+)\]', r'(*yv_vp(&vptrs, \1))'),
        X.Rule('member vptr', r'(?<![\w.>])vptr\s*=', member(cfg) + ' ='),
        X.split_auto_declarators,
    ] + X.COMMON_RULES)
    H.clean('virtual_ptr constructor', ex.body)
    ex.dropped.append('static_assert(std::is_polymorphic_v<...>, "use \'final\' if intended")  (compile-time)')
    return ex


def make_final(cfg):
    ex = X.find_function(REL, r'template<class Other>\s*static auto final\(Other&& obj\)')
    X.apply_rules(ex, [
        X.Rule('using namespace', r'\busing\s+namespace\s+[\w:]+\s*;', ''),
        X.Rule('using other_virtual_traits', r'using\s+other_virtual_traits\s*=\s*virtual_traits<Policy,\s*Other>\s*;', '', 1, 1),
        X.Rule('using polymorphic_type', r'using\s+polymorphic_type\s*=\s*typename\s+other_virtual_traits::polymorphic_type\s*;', '', 1, 1),
        X.eval_if_constexpr(facet_eval(cfg), 2),
        X.Rule('vptr_type vptr;', r'\bvptr_type\s+vptr\s*;', 'const uintptr_t *const *vptr;' if cfg['indirect'] else 'const uintptr_t *vptr;', 1, 1),
        X.Rule('&Policy::static_vptr<polymorphic_type>', r'&\s*Policy::template\s+static_vptr<polymorphic_type>', '(const uintptr_t *const *)&STATIC_VPTR_OF_T'),
        X.Rule('Policy::static_vptr<polymorphic_type>', r'Policy::template\s+static_vptr<polymorphic_type>', 'STATIC_VPTR_OF_T'),
        X.Rule('Policy::dynamic_type(rarg(obj))', r'Policy::dynamic_type\(\s*other_virtual_traits::rarg\(obj\)\s*\)', 'DYNAMIC_TYPE_OF(obj)'),
        # the expression itself (not what it refers to through rarg): for a smart pointer that is the smart pointer object
        X.Rule('Policy::dynamic_type(obj)', r'Policy::dynamic_type\(\s*obj\s*\)', 'DYNAMIC_TYPE_OF_EXPR(obj)'),
        X.Rule('Policy::static_type<remove_cvref<Other>>()', r'Policy::template\s+static_type<\s*std::remove_cv_t<\s*std::remove_reference_t<Other>\s*>\s*>\(\)', 'STATIC_TYPE_OF_EXPR'),
        X.Rule('Policy::static_type<polymorphic_type>()', r'Policy::template\s+static_type<polymorphic_type>\(\)', 'STATIC_TYPE_OF_T'),
        X.Rule('Policy::error(error)', r'Policy::error\((\w+)\)\s*;', r'YV_POLICY_ERROR(\1);'),
        X.Rule('abort()', r'\babort\(\)\s*;', 'yv_abort();'),
        X.Rule('virtual_ptr result;', r'\bvirtual_ptr\s+result\s*;', 'virtual_ptr result; result.vptr = 0; result.ivptr = 0;', 1, 1),
        X.Rule('result.box(obj)', r'\bresult\.box\(obj\)\s*;', 'YV_BOX(&result, obj);', 1, 1),
        X.Rule('result.vptr = vptr', r'\bresult\.vptr\s*=\s*vptr\s*;', 'result.ivptr = vptr;' if cfg['indirect'] else 'result.vptr = vptr;', 1, 1),
        X.split_auto_declarators,
    ] + X.COMMON_RULES)
    H.clean('virtual_ptr::final', ex.body)
    return ex


def make_vptr(cfg):
    ex = X.find_function(REL, r'auto\s+_vptr\(\)\s*const\s+noexcept')
    X.apply_rules(ex, [X.eval_if_constexpr(facet_eval(cfg), 1),
                       X.Rule('member vptr', r'(?<![\w.>])vptr\b', member(cfg))] + X.COMMON_RULES)
    H.clean('virtual_ptr::_vptr', ex.body)
    return ex


def copies():
    """The three converting constructors are member-initialiser lists: obj(<e>), vptr(<e>)."""
    src = X.strip_comments(X.read_repo(REL))
    ms = re.findall(r'template<class Other>\s*virtual_ptr\(((?:const\s+)?virtual_ptr<Other, Policy>&&?)\s+other\)\s*:\s*obj\(([^()]*(?:\([^()]*\))?[^()]*)\),\s*vptr\(([^()]*)\)\s*\{\s*\}', src)
    if len(ms) != 3:
        return copies_with_bodies(src)
    out = []
    for k, (param, e_obj, e_vptr) in enumerate(ms):
        e_obj = re.sub(r'std::move\((.*)\)', r'\1', e_obj.strip())
        e_vptr = e_vptr.strip()
        if not re.fullmatch(r'other\.obj', e_obj) or not re.fullmatch(r'other\.vptr', e_vptr):
            # keep the expressions: they are compiled as C below
            pass
        e_obj = e_obj.replace('other.', 'other->')
        e_vptr = e_vptr.replace('other.', 'other->')
        out.append('void virtual_ptr_copy%d(virtual_ptr *self, virtual_ptr *other) { self->obj = %s; self->vptr = %s; self->ivptr = %s; }'
                   % (k, e_obj, e_vptr, e_vptr.replace('vptr', 'ivptr')))
    out.append(r'''
void h_copies(void)
{
    virtual_ptr a, b; int o;
    a.obj = &o; a.vptr = nondet_vptr(); a.ivptr = nondet_ivptr();
    virtual_ptr a0 = a;
    virtual_ptr_copy0(&b, &a);
    __CPROVER_assert(b.obj == a0.obj && b.vptr == a0.vptr && b.ivptr == a0.ivptr, "C09 converting from virtual_ptr&: object and v-table pointer are copied");
    virtual_ptr_copy1(&b, &a);
    __CPROVER_assert(b.obj == a0.obj && b.vptr == a0.vptr && b.ivptr == a0.ivptr && a.obj == a0.obj && a.vptr == a0.vptr,
                     "C09 copying: object and v-table pointer are copied, the source is unchanged");
    virtual_ptr_copy2(&b, &a);
    __CPROVER_assert(b.obj == a0.obj && b.vptr == a0.vptr && b.ivptr == a0.ivptr, "C09 moving: object and v-table pointer are transferred");
    YV_COVER(1, "reachable");
}
''')
    return '\n'.join(out)


def copies_with_bodies(src):
    """Converting constructors that have a body (member-initialiser list + statements): the body is evaluated for every
    (smart pointer, indirect) configuration and run after the initialisers; the contract is the same - the object and the
    source's v-table pointer are what the new virtual_ptr holds."""
    rx = re.compile(r'template<class Other>\s*virtual_ptr\(((?:const\s+)?virtual_ptr<Other, Policy>&&?)\s+other\)\s*:\s*obj\(([^()]*(?:\([^()]*\))?[^()]*)\),\s*vptr\(([^()]*)\)\s*\{')
    found = []
    for m in rx.finditer(src):
        end = X.match_close(src, m.end() - 1)
        found.append((m.group(1), m.group(2), m.group(3), src[m.end():end]))
    if len(found) != 3:
        raise X.ExtractionBroken('virtual_ptr converting constructors: %d found (expected 3)' % len(found))

    class _Ex:
        rules_fired = []; dropped = []
        def where(self): return REL + ' [converting constructor]'
    out, calls = [], []
    names = ('converting from virtual_ptr&', 'copying', 'moving')
    for smart in (0, 1):
        for ind in (0, 1):
            def ev(cond, smart=smart, ind=ind):
                c = cond.replace(' ', '')
                t = {'IsSmartPtr': bool(smart), 'is_indirect': bool(ind), 'IsSmartPtr&&is_indirect': bool(smart and ind),
                     'is_indirect&&IsSmartPtr': bool(smart and ind), '!IsSmartPtr': not smart, '!is_indirect': not ind,
                     'has_facet<Policy,indirect_vptr>': bool(ind)}
                return t.get(c)
            mem = 'self->ivptr' if ind else 'self->vptr'
            for k, (param, e_obj, e_vptr, body) in enumerate(found):
                e_obj = re.sub(r'std::move\((.*)\)', r'\1', e_obj.strip()).replace('other.', 'other->')
                e_vptr = e_vptr.strip().replace('other.', 'other->')
                b = X.eval_if_constexpr(ev, 0)(_Ex(), body)
                b = re.sub(r'&\s*Policy::template\s+static_vptr<[^;]*>', '(const uintptr_t *const *)&STATIC_VPTR_OF_T', b)
                b = re.sub(r'Policy::template\s+static_vptr<[^;]*>', 'STATIC_VPTR_OF_T', b)
                b = re.sub(r'(?<![\w.>])vptr\b', mem, b)
                b = b.replace('other.', 'other->')
                for r in X.COMMON_RULES:
                    b = re.sub(r.pattern, r.repl, b)
                if re.search(r'\bauto\b|std::|Policy::|\bconstexpr\b|\bthis\b', b):
                    raise X.ExtractionBroken('virtual_ptr converting constructor body: untranslated C++ left: ' + b.strip()[:120])
                fn = 'virtual_ptr_copy%d_s%di%d' % (k, smart, ind)
                out.append('void %s(virtual_ptr *self, virtual_ptr *other) { self->obj = %s; self->vptr = %s; self->ivptr = %s; %s }'
                           % (fn, e_obj, e_vptr, e_vptr.replace('vptr', 'ivptr'), b))
                calls.append('    a = a0; %s(&b, &a);\n    __CPROVER_assert(b.obj == a0.obj && b.%s == a0.%s, "C09 %s (smart pointer %d, indirect %d): object and v-table pointer are those of the source");'
                             % (fn, 'ivptr' if ind else 'vptr', 'ivptr' if ind else 'vptr', names[k], smart, ind))
    out.append('void h_copies(void)\n{\n    virtual_ptr a, b; int o;\n    a.obj = &o; a.vptr = nondet_vptr(); a.ivptr = nondet_ivptr();\n    virtual_ptr a0 = a;\n'
               + '\n'.join(calls) + '\n    YV_COVER(1, "reachable");\n}\n')
    return '\n'.join(out)


def jobs(tier):
    out = []
    cps = copies()
    for hsh, checked, ind, cst in [(h, c, i, k) for (h, c) in ((0, 0), (1, 0), (1, 1)) for i in (0, 1) for k in (0, 1)]:
        if True:
            cfg = {'hash': bool(hsh), 'indirect': bool(ind), 'checks': bool(checked)}
            name = 'hash%d-checked%d-indirect%d%s' % (hsh, checked, ind, '-constclass' if cst else '')
            exc, exf, exv = make_ctor(cfg), make_final(cfg), make_vptr(cfg)
            if cst and 'DECLARED' not in exc.body + exf.body:
                continue      # the code never names the declared class: identical to the non-const configuration
            c = (H.STATICS + H.GHOST + VP.VSHIM +
                 TEXT.replace('@CTOR@', exc.body).replace('@FINAL@', exf.body).replace('@VPTR@', exv.body).replace('@COPIES@', cps))
            defs = ['NCLS=4', 'YV_FACET_HASH=%d' % hsh, 'YV_FACET_CHECKED=%d' % checked, 'YV_FACET_INDIRECT=%d' % ind,
                    'YV_FACET_RUNTIME_CHECKS=%d' % checked, 'YV_CLASS_IS_CONST=%d' % cst]
            fd = ['%s virtual_ptr::virtual_ptr(Other&&) sha256:%s' % (exc.where(), exc.sha()),
                  '%s virtual_ptr::final sha256:%s' % (exf.where(), exf.sha()),
                  '%s virtual_ptr::_vptr sha256:%s' % (exv.where(), exv.sha())]
            tr = ['if constexpr (has_facet<...>) evaluated per facet set; box() for plain pointers as obj = &value; the vptr member as vptr (direct) / ivptr (indirect)',
                  'Policy::dynamic_type / static_type<T>() / static_vptr<T> as opaque values with "one class per id"; static_vptr<cv T> is a distinct, never written variable (template statics are keyed by the cv-qualified type)',
                  'Policy::hash_type_id through its contract (fast: value; checked: rejects unregistered ids, units/hashing)',
                  'vptrs / indirect_vptrs as Skolem arrays holding publish_vptrs\' postcondition for the dynamic class (units/vptrs)']
            variants = [('ctor', 'h_ctor', 2, 0), ('final', 'h_final', 1, 0)]
            if '_EXPR' in exf.body and not cst:
                variants.append(('final-smart-pointer', 'h_final', 1, 1))     # the code looks at the argument expression itself
            for e, h, mc, smart in variants:
                out.append(Job(unit='virtual_ptr', config='%s-%s' % (e, name), c_text=c, entry=h, kind='proof', unwind=10, defines=defs + ['YV_SMART_PTR=%d' % smart],
                               min_obligations=4, min_cover=mc, functions=fd, trusted=tr,
                               assumptions=['smart-pointer flavours (virtual_shared_ptr, make_virtual_shared) and cast<>() are C++ conversions outside the extracted code'],
                               extracted=[exc, exf, exv], props=['C09', 'C15', 'C16'], timeout=300))
    cfg = {'hash': True, 'indirect': False, 'checks': False}
    c = (H.STATICS + H.GHOST + VP.VSHIM + TEXT.replace('@CTOR@', make_ctor(cfg).body).replace('@FINAL@', make_final(cfg).body)
         .replace('@VPTR@', make_vptr(cfg).body).replace('@COPIES@', cps))
    out.append(Job(unit='virtual_ptr', config='copy-constructors', c_text=c, entry='h_copies', kind='proof', unwind=10,
                   defines=['NCLS=4', 'YV_FACET_HASH=1', 'YV_FACET_CHECKED=0', 'YV_FACET_INDIRECT=0', 'YV_FACET_RUNTIME_CHECKS=0', 'YV_CLASS_IS_CONST=0', 'YV_SMART_PTR=0'],
                   min_obligations=3, min_cover=1,
                   functions=['include/yorel/yomm2/core.hpp virtual_ptr converting / copy / move constructors (member-initialiser lists)'],
                   trusted=['member-initialiser lists obj(e1), vptr(e2) as two assignments; std::move on a plain pointer is a copy'],
                   props=['C09', 'C16'], timeout=300))
    return out
