"""compiler<Policy>::assign_slots / assign_tree_slots / assign_lattice_slots and
detail::merge_into / set_bit (compiler.hpp) - bounded.

C04: after slot allocation, in every class, two different (method, virtual
parameter) pairs that both accept objects of that class never share a v-table
cell, and every such cell lies inside the class's v-table
[first_slot, first_slot + vtbl.size()).

Input space: EVERY inheritance lattice over <= NC classes in EVERY registration
order (a DAG given by a symbolic direct-base relation), with the derived data
the way augment_classes computes it from complete base lists (transitive
bases, direct derived in registration order, covariant sets), and every
placement of <= NP method parameters on the classes.  The recursion and all
loops are unwound: bounded(NC, NP).
"""
import re

from engine import extract as X
from engine.core import Job
from engine import replay as R

REL = 'include/yorel/yomm2/detail/compiler.hpp'

TEXT = r'''
#include "yv.h"
#ifndef NC
#define NC 4
#endif
#ifndef NP
#define NP 3
#endif
#define NPOS ((size_t)-1)

/* boost::dynamic_bitset<> : a size and the bits */
typedef struct { uint32_t bits; size_t size; } bitset;
static inline size_t bs_size(const bitset *b) { return b->size; }
static inline void bs_resize(bitset *b, size_t n)
{
    __CPROVER_assert(n <= 32, "bitset shim capacity");
    if (n < b->size) b->bits &= (n == 32 ? 0xffffffffu : ((1u << n) - 1u));
    b->size = n;                       /* new bits are false */
}
static inline _Bool bs_get(const bitset *b, size_t i) { __CPROVER_assert(i < b->size, "dynamic_bitset operator[] within size()"); return (b->bits >> i) & 1u; }
static inline void bs_set(bitset *b, size_t i) { __CPROVER_assert(i < b->size, "dynamic_bitset operator[] within size()"); b->bits |= (1u << i); }
static inline size_t bs_find_first(const bitset *b) { for (size_t i = 0; i < 32; ++i) if (i < b->size && ((b->bits >> i) & 1u)) return i; return NPOS; }

struct cclass; struct cmethod;
typedef struct { struct cmethod *method; size_t param; } parameter;
typedef struct { struct cclass *data[NC]; size_t n; } vec_classp;
typedef struct { parameter data[NP]; size_t n; } vec_param;
typedef struct { size_t data[NP]; size_t n; } vec_size;
typedef struct { size_t n; } vec_vtbl;              /* only resize() / size() are used here */
typedef struct cmethod { vec_size slots; } cmethod;
typedef struct cclass {
    vec_classp transitive_bases, direct_bases, direct_derived;
    vec_classp covariant_classes;                   /* std::unordered_set<class_*>: iterated, never searched here */
    vec_param used_by_vp;
    bitset used_slots, reserved_slots;
    size_t first_slot, mark;
    vec_vtbl vtbl;
} cclass;
#define class_ cclass
typedef struct { cclass *data; size_t n; } vec_class_rec;
vec_class_rec classes; size_t class_mark;
cclass g_cls[NC]; cmethod g_meth[NP];
#define VEC_RESIZE(v, k) ((v).n = (k))

static void merge_into(bitset *a_p, bitset *b_p)
{
#define a (*a_p)
#define b (*b_p)
@MERGE_INTO@
#undef a
#undef b
}
static void set_bit(bitset *mask_p, size_t bit)
{
#define mask (*mask_p)
@SET_BIT@
#undef mask
}
static void assign_tree_slots(cclass *cls_p, size_t base_slot);
static void assign_lattice_slots(cclass *cls_p);
static void assign_tree_slots(cclass *cls_p, size_t base_slot)
{
#define cls (*cls_p)
@TREE@
#undef cls
}
static void assign_lattice_slots(cclass *cls_p)
{
#define cls (*cls_p)
@LATTICE@
#undef cls
}
static void assign_slots(void)
{
@ASSIGN@
}

/* ---- harness: one concrete inheritance DAG per job (all of them are enumerated), symbolic method parameters ---- */
/* YV_EDGES: bit d * NC + b set <=> class b is a DIRECT base of class d; YV_N classes, registered in index order */
#define EDGE(d, b) ((((unsigned long long)YV_EDGES) >> ((d) * NC + (b))) & 1ull)
_Bool w_base[NC][NC];
size_t w_n, w_np, w_pcls[NP];
_Bool anc[NC][NC];        /* anc[d][b]: b is a proper ancestor of d */
void h_assign_slots(void)
{
    size_t n = YV_N, np = nondet_size_t();
    __CPROVER_assume(np <= NP);
    w_n = n; w_np = np;
    for (size_t d = 0; d < NC; ++d) for (size_t b = 0; b < NC; ++b) { w_base[d][b] = d < n && b < n && EDGE(d, b); anc[d][b] = w_base[d][b]; }
    for (size_t r = 0; r < NC; ++r)
        for (size_t k = 0; k < NC; ++k) for (size_t d = 0; d < NC; ++d) for (size_t b = 0; b < NC; ++b)
            if (anc[d][k] && anc[k][b]) anc[d][b] = 1;
    classes.data = g_cls; classes.n = n; class_mark = nondet_size_t();
    __CPROVER_assume(class_mark < 1000);
    for (size_t c = 0; c < NC; ++c) {
        cclass *k = &g_cls[c];
        k->transitive_bases.n = k->direct_bases.n = k->direct_derived.n = k->covariant_classes.n = 0; k->used_by_vp.n = 0;
        k->used_slots.bits = 0; k->used_slots.size = 0; k->reserved_slots.bits = 0; k->reserved_slots.size = 0;
        k->first_slot = 0; k->mark = 0; k->vtbl.n = 0;
    }
    for (size_t d = 0; d < NC; ++d) for (size_t b = 0; b < NC; ++b) {
        if (anc[d][b]) g_cls[d].transitive_bases.data[g_cls[d].transitive_bases.n++] = &g_cls[b];
        if (w_base[d][b]) g_cls[d].direct_bases.data[g_cls[d].direct_bases.n++] = &g_cls[b];
    }
    /* direct_derived: for each class in registration order, appended to each of its direct bases */
    for (size_t d = 0; d < NC; ++d) for (size_t b = 0; b < NC; ++b)
        if (w_base[d][b]) g_cls[b].direct_derived.data[g_cls[b].direct_derived.n++] = &g_cls[d];
    /* covariant set: the class and every class derived from it */
    for (size_t b = 0; b < NC; ++b) for (size_t d = 0; d < NC; ++d)
        if (b < n && d < n && (d == b || anc[d][b])) g_cls[b].covariant_classes.data[g_cls[b].covariant_classes.n++] = &g_cls[d];
    /* method parameters: class c is the class of cnt[c] (method, parameter) pairs, np pairs in all; pair numbers are
       handed out class by class, each pair has its own slots cell.  (The lists are filled at constant indices so that
       the rest of the class records stays concrete for the recursion.) */
    size_t cnt[NC]; size_t off = 0;
    for (size_t p = 0; p < NP; ++p) { g_meth[p].slots.n = 1; g_meth[p].slots.data[0] = nondet_size_t(); w_pcls[p] = NC; }
    for (size_t c = 0; c < NC; ++c) {
        cnt[c] = nondet_size_t();
        __CPROVER_assume(cnt[c] <= NP && (c < n || cnt[c] == 0));
        g_cls[c].used_by_vp.n = cnt[c];
        for (size_t k = 0; k < NP; ++k) {
            parameter q; q.method = &g_meth[(off + k) < NP ? (off + k) : 0]; q.param = 0;
            g_cls[c].used_by_vp.data[k] = q;
            if (k < cnt[c] && off + k < NP) w_pcls[off + k] = c;
        }
        off += cnt[c];
        __CPROVER_assume(off <= NP);
    }
    __CPROVER_assume(off == np);

    assign_slots();

    for (size_t c = 0; c < NC; ++c) {
        if (c >= n) continue;
        for (size_t p = 0; p < NP; ++p) {
            if (p >= np) continue;
            _Bool p_applies = w_pcls[p] == c || anc[c][w_pcls[p]];
            if (!p_applies) continue;
            size_t sp = g_meth[p].slots.data[0];
            __CPROVER_assert(sp >= g_cls[c].first_slot && sp - g_cls[c].first_slot < g_cls[c].vtbl.n,
                             "C04 the cell of a (method, parameter) pair that accepts this class lies inside the class's v-table");
            for (size_t q = 0; q < NP; ++q) {
                if (q >= np || q == p) continue;
                _Bool q_applies = w_pcls[q] == c || anc[c][w_pcls[q]];
                if (q_applies)
                    __CPROVER_assert(sp != g_meth[q].slots.data[0],
                                     "C04 two (method, parameter) pairs that accept the same class never share a v-table cell");
            }
        }
    }
    YV_COVER(np == NP, "all method parameters in use");
}
'''


def value_range_for(elem_decl):
    """`for (auto x : V) {`  over a shim vector of pointers -> index loop."""
    rx = re.compile(r'for\s*\(\s*auto\s+(\w+)\s*:\s*([\w.>-]+)\s*\)\s*\{')

    def rule(ex, body):
        n = [0]

        def rep(m):
            n[0] += 1
            x, v = m.group(1), m.group(2)
            return ('for (size_t yv_i_%s = 0; yv_i_%s < VEC_SIZE(%s); ++yv_i_%s) { %s%s = %s.data[yv_i_%s];'
                    % (x, x, v, x, elem_decl, x, v, x))
        body = rx.sub(rep, body)
        ex.rules_fired.append(('range-for by value over a vector of class_*', n[0]))
        return body
    return rule


def find_if_none(ex, body):
    """std::find_if(S.begin(), S.end(), [](auto x) { return E; }) == S.end()  ->  "no element satisfies E"."""
    rx = re.compile(r'std::find_if\(\s*([\w.>-]+)\.begin\(\),\s*\1\.end\(\),\s*\[\]\(auto\s+(\w+)\)\s*\{\s*return\s+([^;]+);\s*\}\s*\)\s*==\s*\1\.end\(\)')
    n = [0]

    def rep(m):
        n[0] += 1
        s, x, e = m.group(1), m.group(2), m.group(3)
        e = re.sub(r'\b%s\b' % x, 'yv_e', e)
        return ('({ _Bool yv_none = 1; for (size_t yv_k = 0; yv_k < VEC_SIZE(%s); ++yv_k) { cclass *yv_e = %s.data[yv_k]; '
                'if (%s) { yv_none = 0; break; } } yv_none; })' % (s, s, e))
    body = rx.sub(rep, body)
    ex.rules_fired.append(('std::find_if(...) == end()', n[0]))
    return body


BITSET_RULES = [
    X.Rule('bitset[i] = true', r'\b(\w+)\[(\w+)\]\s*=\s*true\s*;', r'bs_set(&\1, \2);'),
    X.Rule('bitset[i]', r'(?<![\w.>])(a|b|mask|unavailable_slots)\[(\w+)\]', r'bs_get(&\1, \2)'),
    X.Rule('bitset.resize', r'\b(\w+(?:\.\w+)*)\.resize\(', r'bs_resize(&\1, '),
]

COMMON_BODY = [
    X.drop_trace,
    X.Rule('using namespace', r'\busing\s+namespace\s+[\w:]+\s*;', ''),
    find_if_none,
    X.range_for_by_ref('__typeof__(YV_ELEM)', 0),
    value_range_for('cclass *'),
    X.Rule('detail::merge_into(a, b)', r'detail::merge_into\(\s*([^,()]+),\s*([^()]+?)\)', r'merge_into(&(\1), &(\2))'),
    X.Rule('detail::set_bit(m, i)', r'detail::set_bit\(\s*([^,()]+),\s*([^()]+?)\)', r'set_bit(&(\1), \2)'),
    X.Rule('assign_tree_slots(*p, n)', r'assign_tree_slots\(\s*\*(\w+)\s*,', r'assign_tree_slots(\1,'),
    X.Rule('assign_tree_slots(ref, n)', r'assign_tree_slots\(\s*(cls)\s*,', r'assign_tree_slots(&\1,'),
    X.Rule('assign_lattice_slots(*p)', r'assign_lattice_slots\(\s*\*(\w+)\s*\)', r'assign_lattice_slots(\1)'),
    X.Rule('assign_lattice_slots(ref)', r'assign_lattice_slots\(\s*(cls)\s*\)', r'assign_lattice_slots(&\1)'),
    X.Rule('method->slots[i]', r'->slots\[', '->slots.data['),
    X.Rule('vtbl.resize', r'\b(\w+)\.vtbl\.resize\(', r'VEC_RESIZE(\1.vtbl, '),
    X.Rule('used_slots.empty()', r'\b([\w.]+_slots)\.empty\(\)', r'(bs_size(&\1) == 0)'),
    X.Rule('used_by_vp.empty()', r'\b([\w.]+used_by_vp)\.empty\(\)', r'(VEC_SIZE(\1) == 0)'),
    X.Rule('find_first()', r'\b([\w.]+)\.find_first\(\)', r'bs_find_first(&\1)'),
    X.Rule('npos', r'boost::dynamic_bitset<>::npos', 'NPOS'),
    X.Rule('bitset.size()', r'\b(unavailable_slots|[\w.]+_slots)\.size\(\)', r'bs_size(&\1)'),
    X.Rule('vector.size()', r'\b([\w.>-]+)\.size\(\)', r'VEC_SIZE(\1)'),
    X.Rule('unavailable[i]', r'\bunavailable_slots\[(\w+)\]', r'bs_get(&unavailable_slots, \1)'),
    X.split_auto_declarators,
] + X.COMMON_RULES


def fix_elem_types(body):
    body = body.replace('__typeof__(YV_ELEM) *const cls_p', 'cclass *const cls_p')
    body = body.replace('const __typeof__(YV_ELEM) *const mp_p', 'const parameter *const mp_p')
    body = body.replace('__typeof__(YV_ELEM) *const mp_p', 'const parameter *const mp_p')
    return body


def grab(name, rx, rules):
    ex = X.find_function(REL, rx)
    X.apply_rules(ex, rules)
    ex.body = fix_elem_types(ex.body)
    left = re.sub(r'__auto_type|__typeof__', '', ex.body)
    if re.search(r'\bauto\b|std::|boost::|YV_ELEM|Policy::|detail::', left):
        raise X.ExtractionBroken('%s: untranslated C++ left: %s' % (name, re.findall(r'[^\n]*(?:\bauto\b|std::|boost::|YV_ELEM|detail::)[^\n]*', left)[:2]))
    return ex


def replay(job, res, ob):
    tr = res.traces.get(ob['name'])
    if not tr:
        return {'reproduced': None, 'detail': 'verifier gave no trace', 'input': None}
    vals = R.last_values(tr)
    n, np_ = R.as_int(vals.get('w_n')), R.as_int(vals.get('w_np'))
    nc, npm = job.nc, job.npm
    if n is None or np_ is None:
        return {'reproduced': None, 'detail': 'trace does not bind the lattice', 'input': None}
    base = [[0] * nc for _ in range(nc)]
    for d in range(nc):
        for b in range(nc):
            for key in ('w_base[%dl][%dl]' % (d, b), 'w_base[%d][%d]' % (d, b)):
                if key in vals:
                    base[d][b] = 1 if R.as_int(vals[key]) else 0
    pcls = R.arr(vals, 'w_pcls', npm)[:np_]
    if any(v is None for v in pcls):
        return {'reproduced': None, 'detail': 'trace does not bind the method parameters', 'input': None}
    return R.run_generated_program('slots_replay', R.lattice_program(n, base, pcls), {'classes': n, 'direct_bases': [(d, b) for d in range(n) for b in range(n) if base[d][b]], 'method_parameter_classes': pcls})


def jobs(tier):
    exm = grab('merge_into', r'inline\s+void\s+merge_into\(boost::dynamic_bitset<>&\s*a,\s*boost::dynamic_bitset<>&\s*b\)', BITSET_RULES + [X.Rule('bitset.size()', r'\b(a|b)\.size\(\)', r'bs_size(&\1)')] + X.COMMON_RULES)
    exs = grab('set_bit', r'inline\s+void\s+set_bit\(boost::dynamic_bitset<>&\s*mask,\s*std::size_t\s+bit\)', BITSET_RULES + [X.Rule('bitset.size()', r'\bmask\.size\(\)', r'bs_size(&mask)')] + X.COMMON_RULES)
    ext = grab('assign_tree_slots', r'template<class Policy>\s*void\s+compiler<Policy>::assign_tree_slots\(class_&\s*cls,\s*std::size_t\s+base_slot\)', COMMON_BODY)
    exl = grab('assign_lattice_slots', r'template<class Policy>\s*void\s+compiler<Policy>::assign_lattice_slots\(class_&\s*cls\)', COMMON_BODY)
    exa = grab('assign_slots', r'template<class Policy>\s*void\s+compiler<Policy>::assign_slots\(\)', COMMON_BODY)
    c = (TEXT.replace('@MERGE_INTO@', exm.body).replace('@SET_BIT@', exs.body).replace('@TREE@', ext.body)
         .replace('@LATTICE@', exl.body).replace('@ASSIGN@', exa.body))
    out = []
    ncmax = 4
    dags = enumerate_dags(ncmax)     # 5-class graphs with 3 symbolic parameter placements exceed the memory / time budget of a job (tried: 150 sampled graphs, most killed)
    for (n, edges_bits, label) in dags:
        nc, npm = max(n, 1), 3
        j = Job(unit='slots', config='assign_slots-%s' % label, c_text=c, entry='h_assign_slots', kind='bounded', unwind=max(nc, npm) + 1,
                defines=['NC=%d' % nc, 'NP=%d' % npm, 'YV_N=%d' % n, 'YV_EDGES=%dull' % edges_bits], object_bits=10,
                bound='assign_slots: EVERY transitively reduced inheritance DAG over <= 4 classes in every registration '
                      'order - one job per DAG - with <= 3 (method, virtual parameter) pairs placed on any classes (symbolic)',
                min_obligations=5, min_cover=1,
                functions=['%s %s sha256:%s' % (e.where(), nm, e.sha()) for e, nm in
                           ((exa, 'compiler<Policy>::assign_slots'), (ext, 'compiler<Policy>::assign_tree_slots'), (exl, 'compiler<Policy>::assign_lattice_slots'),
                            (exm, 'detail::merge_into'), (exs, 'detail::set_bit'))],
                trusted=['boost::dynamic_bitset<> as {bits, size}: operator[], resize, size, find_first, copy',
                         'std::vector / std::deque of class records and std::unordered_set<class_*> as arrays iterated in index order (the unordered_set\'s real iteration order is unspecified; one order is explored)',
                         'std::find_if(...) == end() as "no element satisfies the predicate"'],
                assumptions=['the lattice data is the one augment_classes computes from complete base lists: transitive_bases = all proper ancestors, direct bases not redundant, '
                             'direct_derived in registration order, covariant set = the class and its descendants (augment_classes itself is not under contract - C08)',
                             'each (method, parameter) pair has its own slots cell'],
                extracted=[exa, ext, exl, exm, exs], props=['C04', 'C06', 'C01', 'C08'], timeout=600, replay=replay)
        j.nc, j.npm = nc, npm
        out.append(j)
    return out


_DAG_CACHE = {}


def enumerate_dags(nmax, limit=None):
    """Every labeled, transitively reduced DAG ("b is a direct base of d") on 1..nmax classes; the label order is the
    registration order.  Returns (n, edge bits over an n x n matrix, label)."""
    key = (nmax, limit)
    if key in _DAG_CACHE:
        return _DAG_CACHE[key]
    import random
    out = []
    for n in range(1, nmax + 1):
        pairs = [(d, b) for d in range(n) for b in range(n) if d != b]
        cnt = 0
        masks = range(1 << len(pairs))
        if n >= 5:
            rnd = random.Random(12345)
            masks = (rnd.getrandbits(len(pairs)) & rnd.getrandbits(len(pairs)) for _ in range(400000))   # sparse random edge sets
        seen = set()
        for mask in masks:
            if mask in seen:
                continue
            seen.add(mask)
            e = [[0] * n for _ in range(n)]
            for k, (d, b) in enumerate(pairs):
                if mask >> k & 1:
                    e[d][b] = 1
            a = [r[:] for r in e]
            for k in range(n):
                for i in range(n):
                    if a[i][k]:
                        for jj in range(n):
                            if a[k][jj]:
                                a[i][jj] = 1
            if any(a[i][i] for i in range(n)):
                continue
            if any(e[d][b] and any(k != b and e[d][k] and a[k][b] for k in range(n)) for d in range(n) for b in range(n)):
                continue
            bits = 0
            for d in range(n):
                for b in range(n):
                    if e[d][b]:
                        bits |= 1 << (d * n + b)
            out.append((n, bits, 'n%d-e%x' % (n, bits)))
            cnt += 1
            if n >= 5 and limit and cnt >= limit:
                break
    _DAG_CACHE[key] = out
    return out
