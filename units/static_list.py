"""detail::static_list<T> (static_list.hpp): push_back / remove / clear /
iteration / empty under contract.

Unbounded length (Skolem heap, DESIGN.md 2.7): the abstract view is a ghost
sequence seq[0..n) with n an unconstrained size_t.  Only the nodes a loop-free
operation can touch plus the nodes around one Skolem position are materialised
as objects (roles with symbolic indices; equal index <=> same object); every
other neighbour is a dummy node whose content is arbitrary and must be left
unchanged.  The postcondition is the list invariant at the Skolem position of
the NEW sequence, the new first/last, the removed node's null links and the
frame (every other node unchanged).

clear() contains a loop over the whole list; it is checked in the bounded
companion (pool of POOL nodes, any well-formed list over any subset, any
operation, full invariant re-checked) - labelled bounded.
"""
import re

from engine import extract as X
from engine.core import Job
from engine import replay as R

REL = 'include/yorel/yomm2/detail/static_list.hpp'

COMMON = r'''
#include "yv.h"
typedef struct node { struct node *prev_ptr, *next_ptr; } node;   /* static_link */
typedef struct static_list { node *first; } static_list;
#define BOOST_ASSERT(c) __CPROVER_assert(c, "BOOST_ASSERT (debug builds)")
'''

# the real bodies, `T& node` as a pointer parameter
FUNCS = r'''
#define first (self->first)
void sl_push_back(static_list *self, node *node_p)
{
#define node (*node_p)
@push_back@
#undef node
}

void sl_remove(static_list *self, node *node_p)
{
#define node (*node_p)
@remove@
#undef node
}

void sl_clear(static_list *self)
{
@clear@
}
/* clear() cut at its loop boundary: the statements before the loop, and one execution of the loop body; the
   locals `next` / `cur` are harness globals */
node *next, *cur;
void sl_clear_prologue(static_list *self)
{
@clear_pro@
}
void sl_clear_body(static_list *self)
{
@clear_body@
}

_Bool sl_empty(const static_list *self)
{
@empty@
}

/* iterator::operator++ : `ptr` is the iterator's only member */
node *sl_iter_next(node *ptr)
{
@iter_inc@
    return ptr;
}

/* begin(): iterator(first) */
node *sl_begin(static_list *self)
{
    return @begin_arg@;
}
#undef first
'''

# ------------------------------------------------------------------ Skolem heap
SKOLEM = r'''
#define NR 7
#define NIL ((size_t)-1)
node pool[NR];               /* materialised members of the sequence */
node dummyN[NR], dummyP[NR]; /* unmaterialised neighbours: arbitrary content, must stay unchanged */
node xnode;                  /* the node being pushed (not a member) */
static_list the_list;

size_t g_n;                  /* length of the sequence: any size_t */
size_t g_idx[NR]; _Bool g_valid[NR]; size_t g_slot[NR];
node g_old[NR];              /* old contents of the role objects */
node g_dN[NR], g_dP[NR];

static node *obj(size_t r) { return &pool[g_slot[r]]; }
node *nondet_nodep(void);

/* role r denotes seq[ix] (valid iff ix < n) */
static void role(size_t r, _Bool ok, size_t ix)
{
    g_valid[r] = ok && ix < g_n;
    g_idx[r] = g_valid[r] ? ix : NIL;
    size_t s = nondet_size_t();
    __CPROVER_assume(s < NR);
    g_slot[r] = s;
}

/* the list invariant, instantiated at the roles */
static void assume_wf(void)
{
    /* everything starts arbitrary (globals would otherwise be zero = vacuous) */
    for (size_t r = 0; r < NR; ++r) {
        pool[r].next_ptr = nondet_nodep(); pool[r].prev_ptr = nondet_nodep();
        dummyN[r].next_ptr = nondet_nodep(); dummyN[r].prev_ptr = nondet_nodep();
        dummyP[r].next_ptr = nondet_nodep(); dummyP[r].prev_ptr = nondet_nodep();
    }
    for (size_t r = 0; r < NR; ++r)
        for (size_t s = 0; s < NR; ++s)
            if (g_valid[r] && g_valid[s])
                __CPROVER_assume((g_slot[r] == g_slot[s]) == (g_idx[r] == g_idx[s]));   /* elements are distinct */
    for (size_t r = 0; r < NR; ++r) {
        if (!g_valid[r]) continue;
        node *succ = &dummyN[r], *pred = &dummyP[r];
        /* neighbours that are roles (equal indices share dummies too) */
        for (size_t s = 0; s < NR; ++s) {
            if (!g_valid[s]) continue;
            if (g_idx[s] == g_idx[r] + 1) succ = obj(s);
            if (g_idx[s] + 1 == g_idx[r]) pred = obj(s);
            if (g_idx[s] == g_idx[r] && s < r) { if (succ == &dummyN[r]) succ = &dummyN[s]; if (pred == &dummyP[r]) pred = &dummyP[s]; }
        }
        if (g_idx[r] == g_n - 1) succ = (node *)0;            /* last->next == null */
        if (g_idx[r] == 0) pred = obj(1);                       /* first->prev == last (role 1 = seq[n-1]) */
        obj(r)->next_ptr = succ; obj(r)->prev_ptr = pred;   /* instance of the invariant at this role */
    }
    /* n == 0 <=> first == null; first == seq[0] */
    the_list.first = g_n == 0 ? (node *)0 : obj(0);
    for (size_t r = 0; r < NR; ++r) { g_old[r] = *obj(r); g_dN[r] = dummyN[r]; g_dP[r] = dummyP[r]; }
}

static void assert_dummies_unchanged(void)
{
    for (size_t r = 0; r < NR; ++r) {
        __CPROVER_assert(dummyN[r].next_ptr == g_dN[r].next_ptr && dummyN[r].prev_ptr == g_dN[r].prev_ptr &&
                         dummyP[r].next_ptr == g_dP[r].next_ptr && dummyP[r].prev_ptr == g_dP[r].prev_ptr,
                         "frame: nodes outside the operation's reach are unchanged");
    }
}
'''

H_REMOVE = r'''
size_t w_p, w_K;
/* roles: 0 seq[0], 1 seq[n-1], 2 seq[p-1], 3 seq[p] (= the removed node), 4 seq[p+1],
          5 seq'[K] , 6 seq'[K+1]  (seq' = seq without position p; K a Skolem position of seq') */
void h_remove(void)
{
    g_n = nondet_size_t();
    size_t p = nondet_size_t(), K = nondet_size_t();
    __CPROVER_assume(p < g_n);                      /* x is a member: x == seq[p] */
    w_p = p; w_K = K;
    size_t n1 = g_n - 1;                            /* new length */
    size_t a = K < p ? K : K + 1;                   /* old index of seq'[K]   */
    _Bool a_ok = K < n1;
    size_t b = (K + 1 < p) ? K + 1 : K + 2;         /* old index of seq'[K+1] */
    _Bool b_ok = K < n1 && K + 1 < n1;
    role(0, 1, 0); role(1, 1, g_n - 1);
    role(2, p > 0, p - 1); role(3, 1, p); role(4, p + 1 < g_n, p + 1);
    role(5, a_ok, a); role(6, b_ok, b);
    assume_wf();
    node *x = obj(3);
    node *oldfirst = the_list.first;

    sl_remove(&the_list, x);

    /* the removed node can be registered again */
    __CPROVER_assert(x->prev_ptr == (node *)0 && x->next_ptr == (node *)0, "C18 removed node has null links");
    /* new first / last */
    node *nfirst = n1 == 0 ? (node *)0 : (p == 0 ? obj(4) : obj(0));
    node *nlast = n1 == 0 ? (node *)0 : (p == g_n - 1 ? obj(2) : obj(1));
    __CPROVER_assert(the_list.first == nfirst, "C18 first is seq'[0] (null iff the list became empty)");
    if (n1 > 0) {
        __CPROVER_assert(nfirst->prev_ptr == nlast, "C18 first->prev is the new last");
        __CPROVER_assert(nlast->next_ptr == (node *)0, "C18 last->next is null");
    }
    /* consecutive elements of seq' at the Skolem position are linked both ways */
    if (b_ok) {
        __CPROVER_assert(obj(5)->next_ptr == obj(6), "C18 seq'[K]->next == seq'[K+1]");
        __CPROVER_assert(obj(6)->prev_ptr == obj(5), "C18 seq'[K+1]->prev == seq'[K]");
    }
    /* every other member keeps the links that do not involve the removed node */
    if (a_ok) {
        if (a != p - 1 || p == 0)
            __CPROVER_assert(obj(5)->next_ptr == g_old[5].next_ptr, "frame: next of a node not preceding the removed one is unchanged");
        if (a != p + 1 && !(a == 0 && p == g_n - 1) )
            __CPROVER_assert(obj(5)->prev_ptr == g_old[5].prev_ptr, "frame: prev of a node not following the removed one is unchanged");
    }
    assert_dummies_unchanged();
    YV_COVER(g_n == 1, "only element");
    YV_COVER(g_n > 3 && p == 0, "first of many");
    YV_COVER(g_n > 3 && p == g_n - 1, "last of many");
    YV_COVER(g_n > 5 && p == 3 && K == 2, "interior, Skolem position just before");
    YV_COVER(g_n > 1000000 && p > 500 && p + 2 < g_n && K > p + 5 && b_ok, "long list, Skolem position far behind");
}
'''

H_PUSH = r'''
size_t w_K;
/* roles: 0 seq[0], 1 seq[n-1], 5 seq[K], 6 seq[K+1]; the pushed node is xnode */
void h_push_back(void)
{
    g_n = nondet_size_t();
    __CPROVER_assume(g_n < NIL - 1);
    size_t K = nondet_size_t();
    w_K = K;
    role(0, 1, 0); role(1, 1, g_n - 1);
    role(2, 0, 0); role(3, 0, 0); role(4, 0, 0);
    role(5, K < g_n, K); role(6, K < g_n && K + 1 < g_n, K + 1);
    assume_wf();
    /* precondition: the node is not registered (null links) */
    xnode.prev_ptr = (node *)0; xnode.next_ptr = (node *)0;

    sl_push_back(&the_list, &xnode);

    /* seq' = seq ++ [x] */
    node *nfirst = g_n == 0 ? &xnode : obj(0);
    __CPROVER_assert(the_list.first == nfirst, "C18 first is seq'[0]");
    __CPROVER_assert(nfirst->prev_ptr == &xnode, "C18 first->prev is the new last (the pushed node)");
    __CPROVER_assert(xnode.next_ptr == (node *)0, "C18 last->next is null");
    if (g_n > 0) {
        __CPROVER_assert(obj(1)->next_ptr == &xnode && xnode.prev_ptr == obj(1), "C18 old last and pushed node are linked both ways");
        __CPROVER_assert(obj(1)->prev_ptr == g_old[1].prev_ptr || g_n == 1, "frame: old last keeps its prev");
    }
    if (g_valid[6]) {
        __CPROVER_assert(obj(5)->next_ptr == obj(6) && obj(6)->prev_ptr == obj(5), "C18 earlier elements stay linked in order");
    }
    if (g_valid[5]) {
        if (K != g_n - 1) __CPROVER_assert(obj(5)->next_ptr == g_old[5].next_ptr, "frame: next of every earlier element but the old last is unchanged");
        if (K != 0) __CPROVER_assert(obj(5)->prev_ptr == g_old[5].prev_ptr, "frame: prev of every element but the first is unchanged");
    }
    assert_dummies_unchanged();
    YV_COVER(g_n == 0, "push into empty list");
    YV_COVER(g_n == 1, "push after a single element");
    YV_COVER(g_n > 1000000 && K > 10 && g_valid[6], "long list");
}
'''

H_ITER = r'''
/* iteration enumerates seq in order: begin() is seq[0], ++ moves from seq[i] to
   seq[i+1] and from seq[n-1] to end() (null); empty() <=> n == 0 */
void h_iter(void)
{
    g_n = nondet_size_t();
    size_t i = nondet_size_t();
    role(0, 1, 0); role(1, 1, g_n - 1);
    role(2, 0, 0); role(3, 0, 0); role(4, 0, 0);
    role(5, i < g_n, i); role(6, i < g_n && i + 1 < g_n, i + 1);
    assume_wf();
    __CPROVER_assert(sl_empty(&the_list) == (g_n == 0), "C18 empty() iff no element");
    __CPROVER_assert(sl_begin(&the_list) == (g_n == 0 ? (node *)0 : obj(0)), "C18 begin() is seq[0], or end() when empty");
    if (i < g_n) {
        node *nx = sl_iter_next(obj(5));
        __CPROVER_assert(nx == (i + 1 < g_n ? obj(6) : (node *)0), "C18 ++ moves to the next element in order, then to end()");
        __CPROVER_assert(obj(5)->next_ptr == g_old[5].next_ptr && obj(5)->prev_ptr == g_old[5].prev_ptr, "iteration does not modify nodes");
    }
    assert_dummies_unchanged();
    YV_COVER(g_n == 0, "empty");
    YV_COVER(g_n > 100 && i == g_n - 1, "step to end");
    YV_COVER(g_n > 100 && i == 50, "interior step");
}
'''

H_CLEAR = r'''
/* clear(): inductive obligations.  Position i of the loop: `next` is seq[i] (null when i == n); every element
   before i has null links, every element from i on still has its original next link.
   roles: 0 seq[0], 1 seq[n-1], 2 seq[K] (Skolem), 5 seq[i], 6 seq[i+1] */
static void state_at(size_t i, size_t K)
{
    role(0, 1, 0); role(1, 1, g_n - 1);
    role(2, 1, K); role(3, 0, 0); role(4, 0, 0);
    role(5, i < g_n, i); role(6, i < g_n && i + 1 < g_n, i + 1);
    assume_wf();
    /* elements before i were already unlinked */
    for (size_t r = 0; r < NR; ++r)
        if (g_valid[r] && g_idx[r] < i) { obj(r)->next_ptr = (node *)0; obj(r)->prev_ptr = (node *)0; }
    for (size_t r = 0; r < NR; ++r) g_old[r] = *obj(r);
    the_list.first = (node *)0;
    next = i < g_n ? obj(5) : (node *)0;
}
#define CLEAR_INV_AT_K(i, K) (!((K) < g_n) || ((K) < (i) ? (obj(2)->next_ptr == (node *)0 && obj(2)->prev_ptr == (node *)0) \\
                                                         : obj(2)->next_ptr == g_old[2].next_ptr))
void h_clear_base(void)
{
    g_n = nondet_size_t();
    size_t K = nondet_size_t();
    role(0, 1, 0); role(1, 1, g_n - 1); role(2, 1, K); role(3, 0, 0); role(4, 0, 0); role(5, 0, 0); role(6, 0, 0);
    assume_wf();
    sl_clear_prologue(&the_list);
    __CPROVER_assert(the_list.first == (node *)0, "C18 clear: the list is empty at once");
    __CPROVER_assert(next == (g_n > 0 ? obj(0) : (node *)0), "clear loop entry: next is seq[0] (null for an empty list)");
    __CPROVER_assert(!(K < g_n) || obj(2)->next_ptr == g_old[2].next_ptr, "clear loop entry: every element still has its original next link");
    assert_dummies_unchanged();
    YV_COVER(g_n > 1000 && K == 77, "long list");
    YV_COVER(g_n == 0, "empty list");
}
void h_clear_step(void)
{
    g_n = nondet_size_t();
    size_t i = nondet_size_t(), K = nondet_size_t();
    __CPROVER_assume(i < g_n);                  /* loop condition: next != null <=> i < n */
    state_at(i, K);
    __CPROVER_assert(next != (node *)0, "loop condition holds exactly while i < n");
    sl_clear_body(&the_list);
    __CPROVER_assert(next == (i + 1 < g_n ? obj(6) : (node *)0), "clear step: next advances to seq[i+1] (null after the last element)");
    __CPROVER_assert(obj(5)->next_ptr == (node *)0 && obj(5)->prev_ptr == (node *)0, "C18 clear step: the visited element has null links (it can be registered again)");
    if (K < g_n) {
        if (K <= i) __CPROVER_assert(obj(2)->next_ptr == (node *)0 && obj(2)->prev_ptr == (node *)0, "C18 clear step: elements up to i have null links");
        else __CPROVER_assert(obj(2)->next_ptr == g_old[2].next_ptr, "clear step: elements after i keep their next link");
    }
    __CPROVER_assert(the_list.first == (node *)0, "first stays null");
    assert_dummies_unchanged();
    YV_COVER(g_n > 1000 && i == 500 && K == 499, "Skolem element just before");
    YV_COVER(i + 1 == g_n, "last element");
    YV_COVER(K > i + 5 && K < g_n, "Skolem element far behind");
}
'''

# ------------------------------------------------------------------ bounded companion
H_POOL = r'''
#ifndef POOL
#define POOL 5
#endif
node pl[POOL];
static_list L;
size_t w_n0; size_t w_seq0[POOL]; size_t w_op; size_t w_arg; size_t w_n1; size_t w_seq1[POOL];

/* full invariant check of list L against seq[0..n): returns via assertions */
static void check_wf(const size_t *seq, size_t n, const char *unused)
{
    __CPROVER_assert((L.first == (node *)0) == (n == 0), "C18 first is null iff the catalog is empty");
    if (n > 0) {
        __CPROVER_assert(L.first == &pl[seq[0]], "C18 first is the oldest live registration");
        __CPROVER_assert(pl[seq[0]].prev_ptr == &pl[seq[n - 1]], "C18 first->prev is the last");
        __CPROVER_assert(pl[seq[n - 1]].next_ptr == (node *)0, "C18 last->next is null");
    }
    for (size_t i = 0; i + 1 < POOL; ++i)
        if (i + 1 < n) {
            __CPROVER_assert(pl[seq[i]].next_ptr == &pl[seq[i + 1]], "C18 elements are linked in registration order");
            __CPROVER_assert(pl[seq[i + 1]].prev_ptr == &pl[seq[i]], "C18 back links mirror the order");
        }
    /* iteration: walk with the real begin / ++ and compare with seq */
    node *it = sl_begin(&L);
    for (size_t i = 0; i < POOL; ++i)
        if (i < n) {
            __CPROVER_assert(it == &pl[seq[i]], "C18 iteration enumerates exactly the live items, each once, in order");
            it = sl_iter_next(it);
        }
    __CPROVER_assert(it == (node *)0, "C18 iteration ends after the last live item");
    __CPROVER_assert(sl_empty(&L) == (n == 0), "C18 empty() is right");
    /* non-members have null links (so they can be registered again) */
    for (size_t k = 0; k < POOL; ++k) {
        _Bool member = 0;
        for (size_t i = 0; i < POOL; ++i) if (i < n && seq[i] == k) member = 1;
        if (!member) __CPROVER_assert(pl[k].prev_ptr == (node *)0 && pl[k].next_ptr == (node *)0, "C18 unregistered items have null links");
    }
}

void h_pool(void)
{
    /* any well-formed list over any subset of the pool, in any order */
    size_t n = nondet_size_t();
    __CPROVER_assume(n <= POOL);
    size_t seq[POOL];
    for (size_t i = 0; i < POOL; ++i) {
        seq[i] = nondet_size_t();
        __CPROVER_assume(seq[i] < POOL);
        for (size_t j = 0; j < POOL; ++j) if (j < i && i < n) __CPROVER_assume(seq[j] != seq[i]);
        w_seq0[i] = seq[i];
    }
    w_n0 = n;
    for (size_t k = 0; k < POOL; ++k) { pl[k].prev_ptr = (node *)0; pl[k].next_ptr = (node *)0; }
    L.first = n > 0 ? &pl[seq[0]] : (node *)0;
    for (size_t i = 0; i < POOL; ++i)
        if (i < n) {
            pl[seq[i]].next_ptr = i + 1 < n ? &pl[seq[i + 1]] : (node *)0;
            pl[seq[i]].prev_ptr = i > 0 ? &pl[seq[i - 1]] : &pl[seq[n - 1]];
        }
    /* one operation */
    size_t op = nondet_size_t(), arg = nondet_size_t();
    __CPROVER_assume(op < 3 && arg < POOL);
    w_op = op; w_arg = arg;
    size_t seq1[POOL]; size_t n1 = 0;
    _Bool member = 0; size_t pos = 0;
    for (size_t i = 0; i < POOL; ++i) if (i < n && seq[i] == arg) { member = 1; pos = i; }
    if (op == 0) {               /* push_back(arg), arg not registered */
        __CPROVER_assume(!member);
        for (size_t i = 0; i < POOL; ++i) seq1[i] = i < n ? seq[i] : arg;
        n1 = n + 1;
        sl_push_back(&L, &pl[arg]);
    } else if (op == 1) {        /* remove(arg), arg registered */
        __CPROVER_assume(member);
        for (size_t i = 0; i < POOL; ++i) seq1[i] = i < pos ? seq[i] : (i + 1 < POOL ? seq[i + 1] : 0);
        n1 = n - 1;
        sl_remove(&L, &pl[arg]);
    } else {                     /* clear() */
        for (size_t i = 0; i < POOL; ++i) seq1[i] = 0;
        n1 = 0;
        sl_clear(&L);
    }
    w_n1 = n1;
    for (size_t i = 0; i < POOL; ++i) w_seq1[i] = seq1[i];
    check_wf(seq1, n1, "");
    YV_COVER(op == 0 && n == 0, "push into empty");
    YV_COVER(op == 0 && n == POOL - 1, "push to fill the pool");
    YV_COVER(op == 1 && n == 1, "remove the only element");
    YV_COVER(op == 1 && n == POOL && pos == 0, "remove first of a full pool");
    YV_COVER(op == 1 && n == POOL && pos == POOL - 1, "remove last of a full pool");
    YV_COVER(op == 1 && n == POOL && pos == 2, "remove an interior element");
    YV_COVER(op == 2 && n == POOL, "clear a full pool");
    YV_COVER(op == 2 && n == 0, "clear an empty list");
}
'''

BODY_RULES = [
    X.if_with_declaration,
    X.split_auto_declarators,
] + X.COMMON_RULES


def extract_all():
    exs = {}

    def fn(name, rx, occurrence=0, allow=''):
        ex = X.find_function(REL, rx, occurrence)
        X.apply_rules(ex, BODY_RULES)
        left = re.sub(r'__auto_type', '', ex.body).replace(allow, '') if allow else re.sub(r'__auto_type', '', ex.body)
        if re.search(r'\bauto\b|std::|\bthis\b', left):
            raise X.ExtractionBroken('%s: untranslated C++ left' % name)
        exs[name] = ex
        return ex
    pb = fn('push_back', r'void\s+push_back\s*\(\s*T&\s+node\s*\)')
    rm = fn('remove', r'void\s+remove\s*\(\s*T&\s+node\s*\)')
    cl = fn('clear', r'void\s+clear\s*\(\s*\)')
    em = fn('empty', r'bool\s+empty\s*\(\s*\)')
    # iterator::operator++() (prefix), first of the two iterator classes
    inc = fn('iterator::operator++', r'iterator&\s+operator\+\+\s*\(\s*\)', 0, 'return *this;')
    m = re.fullmatch(r'\s*BOOST_ASSERT\(ptr\);\s*ptr = ptr->next_ptr;\s*return \*this;\s*', inc.body)
    if not m:
        # keep the statements, drop only the `return *this;`
        if inc.body.count('return *this;') != 1:
            raise X.ExtractionBroken('iterator::operator++: unexpected shape')
    inc_body = inc.body.replace('return *this;', '')
    inc.dropped.append('return *this;  (the iterator object is represented by its only member ptr)')
    # const_iterator must have the same ++ body
    inc2 = X.find_function(REL, r'const_iterator&\s+operator\+\+\s*\(\s*\)', 0)
    if X.norm_ws(inc2.body) != X.norm_ws(X.find_function(REL, r'iterator&\s+operator\+\+\s*\(\s*\)', 0).body):
        raise X.ExtractionBroken('const_iterator::operator++ differs from iterator::operator++')
    bg = X.find_function(REL, r'iterator\s+begin\s*\(\s*\)')
    mb = re.fullmatch(r'\s*return\s+iterator\((\w+)\);\s*', bg.body)
    bg2 = X.find_function(REL, r'const_iterator\s+begin\s*\(\s*\)')
    mb2 = re.fullmatch(r'\s*return\s+const_iterator\((\w+)\);\s*', bg2.body)
    if not mb or not mb2 or mb.group(1) != mb2.group(1):
        raise X.ExtractionBroken('begin(): unexpected shape')
    exs['begin'] = bg
    en = X.find_function(REL, r'iterator\s+end\s*\(\s*\)')
    if not re.fullmatch(r'\s*return\s+iterator\(\(\(void\*\)0\)\);\s*|\s*return\s+iterator\(nullptr\);\s*', en.body):
        raise X.ExtractionBroken('end(): unexpected shape')
    exs['end'] = en
    # iterator ctor stores its argument; equality compares ptr
    src = X.strip_comments(X.read_repo(REL))
    if len(re.findall(r'explicit\s+(?:const_)?iterator\(T\*\s+p\)\s*:\s*ptr\(p\)', src)) != 2:
        raise X.ExtractionBroken('iterator constructor: unexpected shape')
    if len(re.findall(r'return\s+a\.ptr\s*==\s*b\.ptr\s*;', src)) != 2 or \
            len(re.findall(r'return\s+a\.ptr\s*!=\s*b\.ptr\s*;', src)) != 2:
        raise X.ExtractionBroken('iterator comparison: unexpected shape')
    # clear(): prologue / loop body (a changed skeleton only disables the two inductive clear jobs)
    clear_pro = clear_body = ''
    exs['clear_skeleton_problem'] = None
    try:
        hs = X.loop_headers(cl.body)
        if len(hs) != 1 or X.norm_ws(cl.body[hs[0][1]:hs[0][2]]) != 'while (next)':
            raise X.ExtractionBroken('clear(): unexpected loop skeleton')
        mo = re.compile(r'\s*\{').match(cl.body, hs[0][2])
        ob = mo.end() - 1
        cb = X.match_close(cl.body, ob)
        if cl.body[cb + 1:].strip():
            raise X.ExtractionBroken('clear(): statements after the loop')
        clear_pro = cl.body[:hs[0][1]]
        clear_body = cl.body[ob + 1:cb]
        clear_pro, n1 = re.subn(r'__auto_type\s+next\s*=', 'next =', clear_pro)
        clear_body, n2 = re.subn(r'__auto_type\s+cur\s*=', 'cur =', clear_body)
        if n1 != 1 or n2 != 1:
            raise X.ExtractionBroken('clear(): locals next / cur not found')
    except X.ExtractionBroken as e:
        clear_pro = clear_body = ''
        exs['clear_skeleton_problem'] = str(e)
    code = (FUNCS.replace('@push_back@', pb.body).replace('@remove@', rm.body).replace('@clear_pro@', clear_pro).replace('@clear_body@', clear_body)
            .replace('@clear@', cl.body).replace('@empty@', em.body)
            .replace('@iter_inc@', inc_body).replace('@begin_arg@', mb.group(1)))
    return exs, code


def fdesc(exs, names):
    return ['%s static_list<T>::%s sha256:%s' % (exs[n].where(), n, exs[n].sha()) for n in names]


TRUSTED = ['T& as a non-null pointer; `first` member access through the list object',
           'iterator objects represented by their only member ptr (constructor and ==/!= shapes are checked textually each run)',
           'std::distance(begin(), end()) (size()) is the number of ++ steps from begin() to end() ([iterator.operations]) - not extracted']
SK_ASSUME = ['Skolem heap (DESIGN.md 2.7): the list invariant is assumed at the materialised roles only (instances of the universally '
             'quantified precondition); proving the postcondition at an arbitrary Skolem position proves it for every position',
             'BOOST_ASSERTs of the bodies are kept as obligations (they hold in debug and release builds alike)']


def replay_pool(job, res, ob):
    tr = res.traces.get(ob['name'])
    if not tr:
        return {'reproduced': None, 'detail': 'verifier gave no trace', 'input': None}
    vals = R.last_values(tr)
    n0, op, arg = R.as_int(vals.get('w_n0')), R.as_int(vals.get('w_op')), R.as_int(vals.get('w_arg'))
    if None in (n0, op, arg):
        return {'reproduced': None, 'detail': 'trace does not bind the inputs', 'input': None}
    seq = R.arr(vals, 'w_seq0', job.pool)[:n0]
    if any(v is None for v in seq):
        return {'reproduced': None, 'detail': 'trace does not bind the list', 'input': None}
    inp = {'tokens': [job.pool, n0] + seq + [op, arg], 'list': seq,
           'operation': ['push_back', 'remove', 'clear'][op], 'node': arg}
    # debug and release flavours of the real code
    r = R.run_real_driver('static_list', [], inp, extra_flags=['-DNDEBUG'])
    return r


def jobs(tier):
    exs, code = extract_all()
    clear_problem = exs.pop('clear_skeleton_problem', None)
    allex = list(exs.values())
    out = []
    for cfg, h, entry, names, mo, mc in (
            ('remove', H_REMOVE, 'h_remove', ['remove'], 20, 5),
            ('push_back', H_PUSH, 'h_push_back', ['push_back'], 15, 3),
            ('iteration', H_ITER, 'h_iter', ['iterator::operator++', 'begin', 'end', 'empty'], 8, 3),
            ('clear-base', H_CLEAR, 'h_clear_base', ['clear'], 4, 2),
            ('clear-step', H_CLEAR, 'h_clear_step', ['clear'], 6, 3)):
        if cfg.startswith('clear-') and clear_problem:
            bj = Job(unit='static_list', config=cfg, c_text='', entry='none')
            bj.broken = 'loop skeleton of clear() is not the one the inductive obligations were written for: ' + clear_problem
            out.append(bj)
            continue
        out.append(Job(unit='static_list', config=cfg, c_text=COMMON + code + SKOLEM + h, entry=entry,
                       kind='proof', unwind=8, min_obligations=mo, min_cover=mc, object_bits=10,
                       functions=fdesc(exs, names), trusted=TRUSTED, assumptions=SK_ASSUME,
                       extracted=[exs[n] for n in names], timeout=1200,
                       note='loops in this job are harness loops over the 7 roles (constant bound, fully unwound); the operation itself is loop-free'))
    pool = 6 if tier == 'thorough' else 5
    out.append(Job(unit='static_list', config='pool%d' % pool, c_text=COMMON + code + H_POOL, entry='h_pool',
                   kind='bounded', unwind=pool + 2, defines=['POOL=%d' % pool], object_bits=10,
                   bound='pool of %d nodes: every well-formed list over every subset and order, one arbitrary operation (push_back / remove / clear), full invariant + iteration re-checked' % pool,
                   min_obligations=20, min_cover=8,
                   functions=fdesc(exs, ['push_back', 'remove', 'clear', 'empty', 'iterator::operator++', 'begin']),
                   trusted=TRUSTED, assumptions=['BOOST_ASSERTs kept as obligations'],
                   extracted=allex, timeout=1200, replay=replay_pool))
    out[-1].pool = pool
    return out
