"""compiler<Policy>::resolve_static_type_ids (compiler.hpp) for the
deferred_static_rtti facet - bounded.

Every type-id cell of every registration record (a class's own id, its base
list, a method's virtual-parameter list, each definition's list) starts as the
address of an id-returning function and must be replaced by the id exactly
once, however often update runs; a resolved id must never be called as a
function, and the flag word that follows a list is the only thing that may
guard it.  Ghost state: per cell "still a function pointer" and a call count.
"""
import re

from engine import extract as X
from engine.core import Job

REL = 'include/yorel/yomm2/detail/compiler.hpp'

TEXT = r'''
#include "yv.h"
#define NCL 2     /* classes */
#define NB 3      /* ids per list */
#define NM 2      /* methods */
#define ND 2      /* definitions per method */
/* every type_id cell (and the flag word after each list) lives in one arena */
#define NCELLS 64
type_id g_cells[NCELLS];
_Bool g_is_fn[NCELLS];        /* ghost: the cell still holds the address of an id-returning function */
_Bool g_is_id_cell[NCELLS];   /* ghost: the cell is an id cell of a live registration (not a flag word) */
unsigned char g_calls[NCELLS];
type_id g_value[NCELLS];      /* what the function returns */

/* the `resolve` lambda:  auto pf = reinterpret_cast<type_id (*)()>(*p); *p = pf();  */
static void resolve(type_id *p)
{
    __CPROVER_assert(__CPROVER_same_object(p, g_cells), "resolve() is applied to a type id cell");
    size_t i = (size_t)(p - g_cells);
    __CPROVER_assert(i < NCELLS && g_is_id_cell[i], "C10 only id cells of registrations are resolved (never a flag word or a stray cell)");
    __CPROVER_assert(g_is_fn[i], "C07/C10 an id that is already resolved is never called as a function");
    g_is_fn[i] = 0; ++g_calls[i];
    *p = g_value[i];
}

typedef struct class_info { type_id type; type_id *first_base, *last_base; _Bool deferred_type_resolved; } class_info;
typedef struct definition_info { type_id *vp_begin, *vp_end; } definition_info;
typedef struct { definition_info *data; size_t n; } vec_definition_info;
typedef struct method_info { type_id *vp_begin, *vp_end; vec_definition_info specs; } method_info;
typedef struct { class_info *data; size_t n; } vec_class_info;
typedef struct { method_info *data; size_t n; } vec_method_info;
vec_class_info yv_classes; vec_method_info yv_methods;
class_info g_class_rec[NCL]; method_info g_method_rec[NM]; definition_info g_def_rec[NM][ND];
/* a class's own id lives in its record; give it a cell of the arena through a macro so that it is tracked too */
#define type type_cell[0]
typedef struct class_info_cells { type_id *type_cell; } class_info_cells;

void resolve_static_type_ids(void)
{
@BODY@
}
#undef type

size_t g_next;
/* n id cells followed by the flag word (0 = unresolved) */
static type_id *new_list(size_t n, _Bool live)
{
    type_id *r = &g_cells[g_next];
    for (size_t k = 0; k < n; ++k) { g_is_fn[g_next + k] = 1; g_is_id_cell[g_next + k] = live; }
    g_cells[g_next + n] = 0;
    g_next += n + 1;
    return r;
}

/* one concrete registry layout per job (CFG_* macros); contents of the cells and the results of the id functions are arbitrary */
void h_deferred(void)
{
    __CPROVER_havoc_object(g_cells); __CPROVER_havoc_object(g_value);
    g_next = 0;
    yv_classes.data = (class_info *)g_class_rec; yv_classes.n = CFG_NCL;
    yv_methods.data = g_method_rec; yv_methods.n = CFG_NM;
    type_id *shared_bases = 0;
    for (size_t c = 0; c < CFG_NCL; ++c) {
        g_class_rec[c].type_cell = &g_cells[g_next]; g_is_fn[g_next] = 1; g_is_id_cell[g_next] = 1; ++g_next;   /* the class's own id */
        g_class_rec[c].deferred_type_resolved = 0;
        /* CFG_SHARE: records naming the same classes share one id list (type_id_list<Policy, types<...>> is one static array) */
        if (!(CFG_SHARE && shared_bases)) shared_bases = new_list(CFG_NB, 1);
        g_class_rec[c].first_base = shared_bases;
        g_class_rec[c].last_base = shared_bases + CFG_NB;
    }
    type_id *shared_def = 0;
    for (size_t m = 0; m < CFG_NM; ++m) {
        g_method_rec[m].vp_begin = new_list(CFG_NVP, 1); g_method_rec[m].vp_end = g_method_rec[m].vp_begin + CFG_NVP;
        g_method_rec[m].specs.data = g_def_rec[m]; g_method_rec[m].specs.n = CFG_ND;
        for (size_t d = 0; d < CFG_ND; ++d) {
            if (!(CFG_SHARE && shared_def)) shared_def = new_list(CFG_NVP, 1);
            g_def_rec[m][d].vp_begin = shared_def; g_def_rec[m][d].vp_end = shared_def + CFG_NVP;
        }
    }
    __CPROVER_assert(g_next <= NCELLS, "harness arena");
    for (size_t u = 0; u < CFG_UPDATES; ++u) resolve_static_type_ids();
    {
        size_t i = nondet_size_t(); __CPROVER_assume(i < NCELLS);      /* Skolem cell */
        if (g_is_id_cell[i]) {
            __CPROVER_assert(!g_is_fn[i] && g_calls[i] == 1 && g_cells[i] == g_value[i],
                             "C10 every deferred id of every live registration is resolved exactly once, whatever the arity and the number of updates");
        } else {
            __CPROVER_assert(g_calls[i] == 0, "flag words and unused cells are never called");
        }
        YV_COVER(g_is_id_cell[i] || CFG_NCL + CFG_NM == 0, "an id cell");
    }
}
'''

LAMBDA_RX = (r'auto\s+resolve\s*=\s*\[\]\(type_id\*\s*p\)\s*\{\s*auto\s+pf\s*=\s*reinterpret_cast<type_id\s*\(\*\)\(\)>\(\*p\);\s*'
             r'\*p\s*=\s*pf\(\);\s*\}\s*;')


def jobs(tier):
    ex = X.find_function(REL, r'template<class Policy>\s*void\s+compiler<Policy>::resolve_static_type_ids\(\)')
    X.apply_rules(ex, [
        X.Rule('resolve lambda (checked textually: reads the cell as a function pointer, calls it, stores the result)', LAMBDA_RX, '', 1, 1),
        X.eval_if_constexpr(lambda c: True if c.replace(' ', '') == 'std::is_base_of_v<policy::deferred_static_rtti,Policy>' else None, 1),
        X.Rule('Policy::classes', r'Policy::classes\b', 'yv_classes'),
        X.Rule('Policy::methods', r'Policy::methods\b', 'yv_methods'),
        X.Rule('list.empty()', r'\b([\w.]+)\.empty\(\)', r'(VEC_SIZE(\1) == 0)'),
        X.range_for_ptr('type_id', 2),
        X.range_for_by_ref('__typeof__(*YV_ELEM)', 0),
    ] + X.COMMON_RULES)
    # element types of the three record lists
    body = ex.body
    body = body.replace('__typeof__(*YV_ELEM) *const ci_p', 'class_info *const ci_p')
    body = body.replace('__typeof__(*YV_ELEM) *const method_p', 'method_info *const method_p')
    body = body.replace('__typeof__(*YV_ELEM) *const definition_p', 'definition_info *const definition_p')
    if 'YV_ELEM' in body or re.search(r'\bauto\b|std::|Policy::|\[\]\s*\(', body):
        raise X.ExtractionBroken('resolve_static_type_ids: untranslated C++ left: %s' % re.findall(r'[^\n]*(?:YV_ELEM|auto|std::|Policy::)[^\n]*', body)[:2])
    ex.dropped.append('the `resolve` lambda is replaced by a shim with the same effect plus ghost bookkeeping (its text is checked to be: read cell as function pointer, call, store)')
    c = TEXT.replace('@BODY@', body)
    # class_info in the harness: own id through a cell pointer
    c = c.replace('typedef struct class_info { type_id type; type_id *first_base, *last_base; _Bool deferred_type_resolved; } class_info;',
                  'typedef struct class_info { type_id *type_cell; type_id *first_base, *last_base; _Bool deferred_type_resolved; } class_info;')
    out = []
    layouts = [
        # (classes, ids per base list, methods, virtual params, definitions, shared lists, updates)
        (0, 1, 0, 1, 0, 0, 1), (1, 1, 1, 1, 1, 0, 1), (2, 2, 1, 1, 2, 0, 2), (1, 1, 1, 2, 0, 0, 1), (1, 2, 2, 2, 2, 0, 2),
        (2, 1, 2, 1, 2, 1, 1), (2, 2, 2, 2, 2, 1, 2), (1, 1, 1, 3, 1, 0, 3), (2, 1, 1, 2, 1, 1, 3),
    ]
    if tier == 'thorough':
        layouts += [(a, b, cc, d, e, f, g) for a in (1, 2) for b in (1, 2) for cc in (1, 2) for d in (1, 2, 3) for e in (0, 1, 2) for f in (0, 1) for g in (1, 2, 3)]
        layouts = sorted(set(layouts))
    for (ncl, nb, nm, nvp, nd, share, upd) in layouts:
        defs = ['CFG_NCL=%d' % ncl, 'CFG_NB=%d' % nb, 'CFG_NM=%d' % nm, 'CFG_NVP=%d' % nvp, 'CFG_ND=%d' % nd, 'CFG_SHARE=%d' % share, 'CFG_UPDATES=%d' % upd]
        out.append(Job(unit='deferred', config='cls%d-bases%d-meth%d-vp%d-defs%d-shared%d-updates%d' % (ncl, nb, nm, nvp, nd, share, upd),
                       c_text=c, entry='h_deferred', kind='bounded', unwind=6, defines=defs,
                       bound='one concrete registry layout per job: <= 2 classes, <= 2 ids per base list, <= 2 methods, <= 3 virtual parameters, <= 2 definitions, '
                             'lists shared or not, 1..3 consecutive updates; cell contents and id values arbitrary',
                       min_obligations=8, min_cover=1, object_bits=10,
                       functions=['%s compiler<Policy>::resolve_static_type_ids [deferred_static_rtti] sha256:%s' % (ex.where(), ex.sha())],
                       trusted=['Policy::classes / methods / method.specs (static_list) iterated in list order as arrays of records (units/static_list)',
                                'detail::range{first, last} as a pointer loop; the resolve lambda as a shim (text checked)'],
                       assumptions=['every class record lists at least one base (register_classes / use_classes always list the class itself); '
                                    'a class_declaration with an empty base list has a null list under deferred ids and is outside this check'],
                       extracted=[ex], props=['C07', 'C10'], timeout=600))
    return out
