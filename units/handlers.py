"""method::not_implemented_handler / ambiguous_handler (core.hpp), detail::get_tip
/ collect_tip (detail.hpp) and backward_compatible_error_handler::
default_error_handler (policy.hpp) per signature shape.

Postcondition at the abort point (the handlers never return normally; if the
policy's handler returns, abort() follows): Policy::error was called exactly
once with a resolution_error whose status tells the two cases apart, whose
arity is the number of virtual parameters and whose types are the dynamic
types of exactly the virtual arguments, in order.  Nothing but the ghost log is
written (dispatch data, slots, vptrs are not even in scope): a handler that
leaves by throwing leaves the tables as they were.
"""
import re

from engine import extract as X
from engine.core import Job
from units.resolve import shapes
from engine import replay as R

REL = 'include/yorel/yomm2/core.hpp'
REL_D = 'include/yorel/yomm2/detail.hpp'
REL_P = 'include/yorel/yomm2/policy.hpp'
SIG = r'template<typename Key, typename R, class Policy, typename\.\.\. A>\s*'

PRELUDE = r'''
#include "yv.h"
#define MAX_TYPES 16            /* resolution_error::max_types */
enum { resolution_error_no_definition = 1, resolution_error_ambiguous = 2 };
typedef struct { int status; const char *method_name; size_t arity; type_id types[MAX_TYPES]; } resolution_error;

/* arguments as the handler sees them */
typedef struct { type_id dyn; } yv_obj;                    /* polymorphic object: id of its dynamic class */
typedef struct { const yv_obj *obj; type_id self_typeid; } yv_virtual_ptr;   /* self_typeid: typeid of the virtual_ptr object itself */
typedef struct { type_id static_typeid; } yv_plain;        /* non-virtual argument: typeid of its static type */
/* Policy::dynamic_type(x) for the three kinds of expressions the handlers apply it to */
#define DYNAMIC_TYPE_OBJ(o) ((o)->dyn)
#define DYNAMIC_TYPE_VIRTUAL_PTR_ITSELF(p) ((p)->self_typeid)
#define DYNAMIC_TYPE_PLAIN(n) ((n)->static_typeid)

/* ghost log of Policy::error */
size_t g_err_calls; resolution_error g_err; _Bool g_aborted;
static void policy_error_resolution(const resolution_error *e) { ++g_err_calls; g_err = *e; }
#define yv_abort() do { g_aborted = 1; YV_AT_ABORT; __CPROVER_assume(0); } while (0)
static void yv_copy_n(const type_id *src, size_t n, type_id *dst) { for (size_t i = 0; i < n; ++i) dst[i] = src[i]; }
const char *g_method_name = "m";
'''


def kind_args(shape):
    t = {'V': 'const yv_obj *', 'P': 'const yv_virtual_ptr *', 'N': 'const yv_plain *'}
    return ', '.join('%sarg_%d' % (t[k], i) for i, k in enumerate(shape))


def tip_functions():
    """detail::get_tip<Policy, ArgType>(arg) and (if present) collect_tip, per argument kind."""
    out = []
    exs = []
    ex0 = X.find_function(REL_D, r'template<class Policy, typename ArgType, typename T>\s*inline uintptr_t get_tip\(const T& arg\)')
    try:
        exc0 = X.find_function(REL_D, r'template<class Policy, typename ArgType, typename T>\s*inline void collect_tip\(type_id\*& iter, const T& arg\)')
    except X.ExtractionBroken:
        exc0 = None
    t = {'V': 'const yv_obj *', 'P': 'const yv_virtual_ptr *', 'N': 'const yv_plain *'}
    for kind in 'VPN':
        def ev(c, k=kind):
            c = c.replace(' ', '')
            return {'is_virtual<ArgType>::value': k in 'VP', 'is_virtual_ptr<ArgType>': k == 'P'}.get(c)
        ex = X.Extracted(ex0.rel, ex0.header, ex0.body, ex0.line, ex0.end_line)
        rarg = {'V': 'DYNAMIC_TYPE_OBJ(arg)', 'P': 'DYNAMIC_TYPE_VIRTUAL_PTR_ITSELF(arg)', 'N': 'DYNAMIC_TYPE_PLAIN(arg)'}[kind]
        plain = {'V': 'DYNAMIC_TYPE_OBJ(arg)', 'P': 'DYNAMIC_TYPE_VIRTUAL_PTR_ITSELF(arg)', 'N': 'DYNAMIC_TYPE_PLAIN(arg)'}[kind]
        X.apply_rules(ex, [
            X.eval_if_constexpr(ev, 1),
            # virtual_traits<Policy, ArgType>::rarg(arg): identity for T& and for virtual_ptr (detail.hpp:262, 339)
            X.Rule('dynamic_type(rarg(arg))', r'Policy::dynamic_type\(\s*virtual_traits<Policy,\s*ArgType>::rarg\(arg\)\s*\)', rarg),
            # *arg on a virtual_ptr: the pointee (virtual_ptr::operator*)
            X.Rule('dynamic_type(*arg)', r'Policy::dynamic_type\(\s*\*arg\s*\)', 'DYNAMIC_TYPE_OBJ(arg->obj)' if kind == 'P' else 'YV_ILL_FORMED'),
            X.Rule('dynamic_type(arg)', r'Policy::dynamic_type\(\s*arg\s*\)', plain),
        ] + X.COMMON_RULES)
        if re.search(r'Policy::|constexpr|ArgType', ex.body):
            raise X.ExtractionBroken('get_tip: untranslated C++ left: ' + X.norm_ws(ex.body)[:200])
        out.append('static inline uintptr_t get_tip_%s(%sarg)\n{\n%s\n}\n' % (kind, t[kind], ex.body))
        exs.append(ex)
        if exc0 is not None:
            exc = X.Extracted(exc0.rel, exc0.header, exc0.body, exc0.line, exc0.end_line)
            X.apply_rules(exc, [X.eval_if_constexpr(ev, 1),
                                X.Rule('get_tip<Policy, ArgType>(arg)', r'get_tip<Policy,\s*ArgType>\(arg\)', 'get_tip_%s(arg)' % kind),
                                X.Rule('iter (reference to pointer)', r'\biter\b', '(*iter_p)')] + X.COMMON_RULES)
            if re.search(r'Policy::|constexpr|ArgType', exc.body):
                raise X.ExtractionBroken('collect_tip: untranslated C++ left')
            out.append('static inline void collect_tip_%s(type_id **iter_p, %sarg)\n{\n%s\n}\n' % (kind, t[kind], exc.body))
            exs.append(exc)
    return '\n'.join(out), exs


def handler(name, shape, facet_error_handler=True):
    ex = X.find_function(REL, SIG + r'BOOST_NORETURN typename method<Key, R\(A\.\.\.\), Policy>::return_type\s*method<Key, R\(A\.\.\.\), Policy>::'
                         + name + r'\(\s*detail::remove_virtual<A>\.\.\. args\)')
    n = len(shape)
    arity = sum(1 for k in shape if k in 'VP')

    def fold(ex_, body):
        cnt = [0]

        def rep(m):
            e = m.group(1)
            parts = []
            for i, k in enumerate(shape):
                p = e
                p = re.sub(r'detail::get_tip<Policy,\s*A>\(args\)', 'get_tip_%s(arg_%d)' % (k, i), p)
                p = re.sub(r'detail::collect_tip<Policy,\s*A>\(\s*(\w+)\s*,\s*args\)', r'collect_tip_%s(&\1, arg_%d)' % (k, i), p)
                if re.search(r'\bargs\b|\bA\b', p):
                    raise X.ExtractionBroken('%s: fold expression operand not understood: %s' % (name, e))
                parts.append('(%s);' % p)
            cnt[0] += 1
            return ' '.join(parts)
        # (..., E);  unary left fold over the comma operator: operands evaluated left to right ([expr.prim.fold])
        body = re.sub(r'\(\s*\.\.\.\s*,\s*((?:[^;])*?)\)\s*;', rep, body)
        ex_.rules_fired.append(('fold expression over the parameter pack', cnt[0]))
        if cnt[0] != 1:
            raise X.ExtractionBroken('%s: %d fold expressions (expected 1)' % (name, cnt[0]))
        return body

    X.apply_rules(ex, [
        X.eval_if_constexpr(lambda c: facet_error_handler if c.replace(' ', '') == 'Policy::templatehas_facet<policy::error_handler>' else None, 1),
        fold,
        X.Rule('sizeof...(args)', r'sizeof\.\.\.\(args\)', str(n)),
        X.Rule('resolution_error::no_definition', r'resolution_error::no_definition\b', 'resolution_error_no_definition'),
        X.Rule('resolution_error::ambiguous', r'resolution_error::ambiguous\b', 'resolution_error_ambiguous'),
        X.Rule('resolution_error::max_types', r'resolution_error::max_types\b', 'MAX_TYPES'),
        X.Rule('fn.name', r'\bfn\.name\b', 'g_method_name'),
        X.Rule('arity', r'(?<![\w.>])arity\b', str(arity)),
        X.Rule('auto it = types (array-to-pointer decay)', r'\bauto\s+(\w+)\s*=\s*types\s*;', r'type_id *\1 = types;'),
        X.split_auto_declarators,
        X.Rule('std::copy_n', r'std::copy_n\(', 'yv_copy_n('),
        X.Rule('Policy::error(error_type(std::move(error)))', r'Policy::error\(error_type\(std::move\(error\)\)\)\s*;', 'policy_error_resolution(&error);'),
        X.Rule('abort()', r'\babort\(\)\s*;', 'yv_abort();', 1, 1),
    ] + X.COMMON_RULES)
    left = re.sub(r'__auto_type', '', ex.body)
    if re.search(r'\bauto\b|std::|Policy::|constexpr|\.\.\.|detail::', left):
        raise X.ExtractionBroken('%s: untranslated C++ left: %s' % (name, re.findall(r'[^\n]*(?:std::|Policy::|\.\.\.|detail::)[^\n]*', left)[:2]))
    return ex


def harness(shape, status):
    vpos = [i for i, k in enumerate(shape) if k in 'VP']
    v = len(vpos)
    L = ['void h_handler(void)', '{']
    for i, k in enumerate(shape):
        if k == 'V':
            L.append('    yv_obj o%d; o%d.dyn = nondet_uintptr(); const yv_obj *arg_%d = &o%d;' % (i, i, i, i))
        elif k == 'P':
            L.append('    yv_obj o%d; o%d.dyn = nondet_uintptr(); yv_virtual_ptr p%d; p%d.obj = &o%d; p%d.self_typeid = nondet_uintptr(); const yv_virtual_ptr *arg_%d = &p%d;' % (i, i, i, i, i, i, i, i))
        else:
            L.append('    yv_plain n%d; n%d.static_typeid = nondet_uintptr(); const yv_plain *arg_%d = &n%d;' % (i, i, i, i))
    for j, i in enumerate(vpos):
        L.append('    g_want[%d] = o%d.dyn;' % (j, i))
    L.append('    g_err_calls = 0;')
    L.append('    YV_COVER(1, "handler entered");')
    L.append('    the_handler(%s);' % ', '.join('arg_%d' % i for i in range(len(shape))))
    L.append('    __CPROVER_assert(0, "C02 the handler never returns: if the policy\'s error handler returns, the program aborts");')
    L.append('}')
    return '\n'.join(L) + '\n'


def at_abort(shape, status):
    v = sum(1 for k in shape if k in 'VP')
    conds = ' && '.join('g_err.types[%d] == g_want[%d]' % (j, j) for j in range(min(v, 16)))
    return ('type_id g_want[32];\n'
            '#define YV_AT_ABORT \\\n'
            '    __CPROVER_assert(g_err_calls == 1, "C02 the policy\'s error handler is invoked exactly once before abort"); \\\n'
            '    __CPROVER_assert(g_err.status == %s, "C02 the status tells no-definition and ambiguous apart"); \\\n'
            '    __CPROVER_assert(g_err.arity == %d, "C02 arity is the number of virtual parameters"); \\\n'
            '    __CPROVER_assert(%s, "C02 the type ids are the dynamic types of exactly the virtual arguments, in order")\n'
            % (status, v, conds))


def deprecated_job():
    """backward_compatible_error_handler::default_error_handler: a resolution error is forwarded to call_error
    with the same code, arity and types, then abort()."""
    ex = X.find_function(REL_P, r'static\s+void\s+default_error_handler\(const error_type& error_v\)', 0)
    X.apply_rules(ex, [
        X.Rule('using namespace', r'\busing\s+namespace\s+[\w:]+\s*;', ''),
        X.Rule('if (auto e = std::get_if<resolution_error>(&v))', r'if\s*\(\s*auto\s+(\w+)\s*=\s*std::get_if<resolution_error>\(&error_v\)\s*\)',
               r'const resolution_error *\1 = (error_v->kind == YV_KIND_RESOLUTION ? &error_v->resolution : (const resolution_error *)0); if (\1)', 1, 1),
        X.Rule('call_error(std::move(e), arity, types)', r'call_error\(std::move\((\w+)\),', r'call_error_stub(&\1,', 1, 1),
        X.Rule('(type_id*)err->types', r'\(type_id\*\)(\w+)->types', r'(type_id *)\1->types'),
        X.Rule('vectored_error<Policy>::default_error_handler', r'vectored_error<Policy>::default_error_handler\(error_v\)\s*;', 'vectored_default_stub(error_v);', 1, 1),
        X.Rule('abort()', r'\babort\(\)\s*;', 'yv_abort();', 1, 1),
    ] + X.COMMON_RULES)
    if re.search(r'\bauto\b|std::|Policy::', ex.body):
        raise X.ExtractionBroken('backward_compatible default_error_handler: untranslated C++ left')
    c = PRELUDE + r'''
#define YV_AT_ABORT \
    __CPROVER_assert(g_calls == 1 && g_vec_calls == 0, "C02 deprecated path: call_error is invoked exactly once"); \
    __CPROVER_assert(g_code == in.resolution.status && g_arity == in.resolution.arity && g_types == (type_id *)in.resolution.types, \
                     "C02 deprecated path: call_error receives the same status, arity and type ids")
''' + r'''
typedef struct { int code; const char *method_name; } method_call_error;
#define YV_KIND_RESOLUTION 1
typedef struct { int kind; resolution_error resolution; } error_type;     /* std::variant: the alternative index and the alternative */
size_t g_calls, g_vec_calls; int g_code; size_t g_arity; type_id *g_types;
error_type in;
static void call_error_stub(const method_call_error *e, size_t arity, type_id *types) { ++g_calls; g_code = e->code; g_arity = arity; g_types = types; }
static void vectored_default_stub(const error_type *e) { ++g_vec_calls; }
void default_error_handler(const error_type *error_v)
{
@BODY@
}
void h_deprecated(void)
{
    in.kind = nondet_int(); in.resolution.status = nondet_int(); in.resolution.arity = nondet_size_t();
    g_calls = 0; g_vec_calls = 0;
    YV_COVER(in.kind == YV_KIND_RESOLUTION, "a resolution error");
    default_error_handler(&in);
    __CPROVER_assert(in.kind != YV_KIND_RESOLUTION, "C02 deprecated path: a resolution error never returns (abort follows call_error)");
    __CPROVER_assert(g_calls == 0 && g_vec_calls == 1, "other errors go to the vectored default handler");
    YV_COVER(in.kind != YV_KIND_RESOLUTION, "another error");
}
'''.replace('@BODY@', ex.body)
    return Job(unit='handlers', config='backward-compatible-handler', c_text=c, entry='h_deprecated', kind='proof', unwind=20,
               min_obligations=3, min_cover=2,
               functions=['%s backward_compatible_error_handler::default_error_handler sha256:%s' % (ex.where(), ex.sha())],
               trusted=['std::variant / std::get_if as a tagged union', 'call_error and the vectored default handler as logging stubs'],
               extracted=[ex], props=['C02'], timeout=300)


def jobs(tier):
    out = []
    tips, tip_exs = tip_functions()
    shp = shapes(5, 4) if tier == 'thorough' else shapes(4, 3)
    # a long signature exercises the max_types clamp
    shp = shp + ['V' * 17, 'NV' * 9]
    for hname, status in (('not_implemented_handler', 'resolution_error_no_definition'), ('ambiguous_handler', 'resolution_error_ambiguous')):
        for s in shp:
            if tier != 'thorough' and hname == 'ambiguous_handler' and len(s) == 4 and s.count('N') == 0:
                pass
            try:
                ex = handler(hname, s)
                broken = None
            except X.ExtractionBroken as e:
                ex, broken = None, str(e)
            cfg = '%s-%s' % (hname.replace('_handler', ''), s if len(s) <= 6 else '%sx%d' % (s[:2], len(s)))
            if broken:
                j = Job(unit='handlers', config=cfg, c_text='', entry='none', props=['C02'])
                j.broken = broken
                out.append(j)
                continue
            c = (PRELUDE + at_abort(s, status) + tips + '\nvoid the_handler(%s)\n{\n%s\n}\n' % (kind_args(s), ex.body) + harness(s, status))
            out.append(Job(unit='handlers', config=cfg, c_text=c, entry='h_handler', kind='proof', unwind=20,
                           min_obligations=4, min_cover=1,
                           functions=['%s method::%s sha256:%s' % (ex.where(), hname, ex.sha())] +
                                     ['%s detail::%s sha256:%s' % (e.where(), 'get_tip / collect_tip', e.sha()) for e in tip_exs[:1]],
                           trusted=['partial evaluation per signature shape: sizeof...(args), the fold expression over the pack expanded left to right, '
                                    'if constexpr evaluated per argument kind',
                                    'Policy::dynamic_type(x): the dynamic class id for a polymorphic object, the virtual_ptr\'s own typeid when applied to the '
                                    'virtual_ptr object, the static typeid for a non-virtual argument; virtual_traits<..>::rarg is the identity for T& and virtual_ptr',
                                    'Policy::error as a logging stub; std::copy_n as its defining loop'],
                           assumptions=['exception propagation through operator() when the handler throws is C++ semantics outside the extracted code '
                                        '(no try / catch / noexcept on the path)'],
                           extracted=[ex], props=['C02'], timeout=300,
                           replay=(lambda job, res, ob, s=s, amb=(hname == 'ambiguous_handler'):
                                   R.run_generated_program('handler_%s_%d' % (s[:12], amb), R.shape_handler_program(s, amb),
                                                           {'shape': s, 'handler': 'ambiguous' if amb else 'not_implemented'}))
                           if len(s) <= 8 else None))
    out.append(deprecated_job())
    return out
