"""fast_perfect_hash / checked_perfect_hash (fast_perfect_hash.hpp) under contract.

Jobs
  lemmas-L1L2     bit-precise, loop-free: the index expression used when the
                  table is built equals the lookup expression for all 64-bit
                  operands; the result is < 2^M when hash_shift == 64 - M
  hash_type_id    fast lookup: contract (result, frame)
  checked_lookup  checked lookup: returns normally only if
                  index < hash_length && control[index] == type; otherwise the
                  handler gets unknown_class_error{type} and it never returns
  hash_initialize the search (4 nested loops, closed by loop invariants; the
                  RNG is nondeterministic, every prior value of the statics is
                  allowed): on normal return every registered id sits in its
                  own bucket (Skolem id), indexes <= hash_max < hash_length,
                  every non-empty bucket holds a registered id (Skolem bucket +
                  witness); otherwise hash_search_error and no return
  checked_initialize  the checked wrapper: control.size() == hash_length etc.
  rejection-lemma     consequence: an id the checked lookup accepts is registered

Arithmetic: inside the loop proof `(type * hash_mult) >> hash_shift` is the
uninterpreted yv_hash (technique 2.9); L1/L2 keep the abstraction honest.
"""
import re

from engine import extract as X
from engine.core import Job

REL = 'include/yorel/yomm2/policies/fast_perfect_hash.hpp'

STATICS = r'''
#include "yv_policy.h"
/* one object per group keeps DFCC's write sets small */
struct yv_statics { type_id hash_mult_; size_t hash_shift_, hash_length_, hash_min_, hash_max_; } P;
#define hash_mult (P.hash_mult_)
#define hash_shift (P.hash_shift_)
#define hash_length (P.hash_length_)
#define hash_min (P.hash_min_)
#define hash_max (P.hash_max_)
struct yv_errlog { size_t calls; int kind; type_id type; size_t attempts, buckets; _Bool aborted; } E;
#define g_err_calls (E.calls)
#define g_err_kind (E.kind)
#define g_err_type (E.type)
#define g_err_attempts (E.attempts)
#define g_err_buckets (E.buckets)
#define g_aborted (E.aborted)
void yv_policy_error(int kind, const void *e)
{
    ++g_err_calls; g_err_kind = kind;
    if (kind == YV_ERR_HASH_SEARCH) { g_err_attempts = ((const hash_search_error *)e)->attempts; g_err_buckets = ((const hash_search_error *)e)->buckets; }
    if (kind == YV_ERR_UNKNOWN_CLASS) g_err_type = ((const unknown_class_error *)e)->type;
    if (kind == YV_ERR_METHOD_TABLE) g_err_type = ((const method_table_error *)e)->type;
}
'''

# ---------------------------------------------------------------- lemmas L1 / L2 (concrete arithmetic)
LEMMAS = STATICS + r'''
#define YV_HASH(x) @LOOKUP_EXPR_OF_X@
type_id yv_prod;   /* == hash_mult * type, computed once in the harness */
static type_id fast_hash_type_id(type_id type)
{
@FAST_BODY@
}
void h_lemmas(void)
{
    type_id type = nondet_uintptr();
    hash_mult = nondet_uintptr();
    yv_prod = hash_mult * type;
    size_t M = nondet_size_t();
    __CPROVER_assume(M >= 1 && M <= 63);
    hash_shift = 8 * sizeof(type_id) - M;
    /* L1: expression used by hash_initialize == lookup function */
    size_t built = @BUILD_EXPR@;
    __CPROVER_assert(built == fast_hash_type_id(type), "L1 the index computed when building equals the index computed at lookup, for all operands");
    /* L2: range */
    __CPROVER_assert(fast_hash_type_id(type) < ((size_t)1 << M), "L2 the index is below 2^M when hash_shift == 64 - M");
    __CPROVER_assert(built < ((size_t)1 << M), "L2 (build expression)");
    YV_COVER(built == 5 && M == 3, "a concrete index");
}
'''

# ---------------------------------------------------------------- abstract hash for the loop proofs
GHOST = r'''
/* ---- ghost state ---------------------------------------------------------- */
size_t g_cS, g_pS;          /* Skolem id: class index, id position (any values; never assigned by the function) */
size_t g_B;                  /* Skolem bucket (never assigned by the function) */
size_t g_ncls;
struct yv_ghost {
    type_id idS; _Bool validS;
    type_id pm; size_t ps;   /* multiplier / shift the ghost hash value below belongs to */
    size_t hS, hS_next;      /* the hash of idS under (pm, ps) */
    size_t wc, wp;           /* witness: where the id found in bucket g_B is registered */
    size_t M;                /* M of the successful pass */
    size_t probe1, probe2;
    type_id cellS, cellB, scratch; size_t cellS_idx;   /* Skolem array cells, see below */
} G;
#define g_idS (G.idS)
#define g_validS (G.validS)
#define g_pm (G.pm)
#define g_ps (G.ps)
#define g_hS (G.hS)
#define g_hS_next (G.hS_next)
#define g_wc (G.wc)
#define g_wp (G.wp)
#define g_M (G.M)
#define g_probe1 (G.probe1)
#define g_probe2 (G.probe2)
#define g_cellS (G.cellS)
#define g_cellB (G.cellB)
#define g_scratch (G.scratch)
#define g_cellS_idx (G.cellS_idx)

_Bool nondet_bool(void);
size_t __CPROVER_uninterpreted_mulshift(type_id x, type_id m, size_t sh);
/* (type * hash_mult) >> hash_shift as an arbitrary function of its operands;
   its value at the Skolem id is the ghost g_hS; range = lemma L2 */
static inline size_t yv_hash(type_id x)
{
    size_t r = (x == g_idS && hash_mult == g_pm && hash_shift == g_ps) ? g_hS
               : __CPROVER_uninterpreted_mulshift(x, hash_mult, hash_shift);
    __CPROVER_assume(hash_shift >= 1 && hash_shift <= 63 ? r < ((size_t)1 << (64 - hash_shift)) : 1);
    return r;
}
#define YV_HASH(x) yv_hash(x)
#define YV_RANDOM() nondet_uintptr()
#define EMPTY ((type_id)-1)

/* ---- Skolem array (DESIGN.md 2.7 applied to a vector) -----------------------
 * The bucket vector is represented by its size and by the two cells the proof
 * talks about: the cell at index g_cellS_idx (the Skolem id's bucket, re-targeted
 * by fill) and the cell at the Skolem bucket g_B.  Any other cell reads as an
 * arbitrary value and ignores writes (over-approximation); every access is
 * bounds-checked against the size.  No array object exists, so the number of
 * buckets is not bounded by an object size. */
typedef struct { size_t n; } vec_tid_abs;
#define vec_tid vec_tid_abs
static inline type_id *yv_bucket(vec_tid *v, size_t i)
{
    __CPROVER_assert(i < v->n, "vector index in range");
    if (i == g_B) return &g_cellB;
    if (i == g_cellS_idx) return &g_cellS;
    g_scratch = nondet_uintptr();
    return &g_scratch;
}
#define CELL(i) ((i) == g_B ? g_cellB : g_cellS)     /* only used for i in {g_B, g_cellS_idx} */
/* [vector.capacity] resize(n[, v]): first min(old, n) elements kept, new ones value-initialised / copies of v */
static inline void vec_tid_resize(vec_tid *v, size_t n, type_id fill)
{
    size_t old = v->n;
    if (g_B >= old && g_B < n) g_cellB = fill;
    if (g_cellS_idx >= old && g_cellS_idx < n) g_cellS = fill;
    v->n = n;
}
/* [alg.fill] over the whole vector; the Skolem id's cell is re-targeted to g_probe1 first
   (all cells hold `val` afterwards, so any cell may be chosen as the observed one) */
static inline void vec_tid_fill(vec_tid *v, type_id val)
{
    g_cellS_idx = g_probe1;
    g_cellS = val; g_cellB = val;
}
'''

# ---------------------------------------------------------------- decomposition of hash_initialize
# The function is cut at its loop boundaries (mechanically, on the rewritten
# text): every straight-line segment and the innermost loop body become one
# function each, checked loop-free over arbitrary states satisfying the loop
# invariant (inductive base / step / exit obligations).  CBMC's own nested
# loop-contract instrumentation on the whole function did not finish (> 30 min,
# DFCC and legacy); see DESIGN.md.  The loop skeleton itself (headers, break
# semantics, composition) is checked textually against the expected shape and
# by the bounded whole-function job.
DECOMP = r'''
/* locals and parameters of hash_initialize, visible to the harnesses */
ptrdiff_t N; size_t total_attempts, M, pass, attempts; int hash_size; bool found;
const yv_class *first, *last, *iter; const type_id *type_iter; vec_tid *buckets_p;
yv_class g_classes[NCLS]; vec_tid g_b;
_Bool g_broke, g_returned;

#define CI ((size_t)(iter - first))
#define TI ((size_t)(type_iter - &iter->ids[0]))
#define VISITED(ci, ti) (g_validS && ((ci) > g_cS || ((ci) == g_cS && (ti) > g_pS)))
#define SFACT (g_cellS_idx == g_hS && g_hS < buckets_p->n && CELL(g_hS) == g_idS && g_hS <= hash_max)
#define WITNESS_OK (g_wc < g_ncls && g_wp < first[g_wc].nids && first[g_wc].ids[g_wp] == g_cellB)
#define BFACT (g_B < buckets_p->n ==> (g_cellB == EMPTY || WITNESS_OK))
/* the loop invariant of the two class / id loops at position (ci, ti) */
#define INV(ci, ti) (!found || (g_pm == hash_mult && g_ps == hash_shift && g_cellS_idx == g_hS && \
                     (!(VISITED(ci, ti) && g_idS != EMPTY) || SFACT) && BFACT))
#define SIZES_OK (M >= 1 && M <= 30 && hash_shift == 64 - M && buckets_p->n == ((size_t)1 << M))
#undef YV_AT_ABORT
#define YV_AT_ABORT __CPROVER_assert(g_err_calls == 1 && g_err_kind == YV_ERR_HASH_SEARCH && g_err_attempts == total_attempts && \
                                     g_err_buckets == ((size_t)1 << M), \
                                     "C05 a failed search is reported as a hash search error (attempts, buckets), once, before aborting")

static void frag_pre(void)
{
@PRE@
}
static void frag_pass_prologue(void)
{
@PASS_PRO@
}
static void frag_attempt_prologue(void)
{
@ATT_PRO@
}
static void frag_body4(void)
{
    g_broke = 1;
    do {
@BODY4@
        g_broke = 0;
    } while (0);
}
static void frag_pass_epilogue(void)
{
    g_returned = 1;
@PASS_EPI@
    g_returned = 0;
}
static void frag_tail(void)
{
@TAIL@
}

static void arbitrary_state(void)
{
    hash_mult = nondet_uintptr(); hash_shift = nondet_size_t(); hash_length = nondet_size_t();
    hash_min = nondet_size_t(); hash_max = nondet_size_t();
    g_cS = nondet_size_t(); g_pS = nondet_size_t(); g_B = nondet_size_t(); g_ncls = nondet_size_t();
    g_wc = nondet_size_t(); g_wp = nondet_size_t(); g_pm = nondet_uintptr(); g_ps = nondet_size_t();
    g_hS = nondet_size_t(); g_hS_next = nondet_size_t(); g_M = nondet_size_t();
    g_cellS = nondet_uintptr(); g_cellB = nondet_uintptr(); g_cellS_idx = nondet_size_t();
    N = nondet_size_t(); total_attempts = nondet_size_t(); M = nondet_size_t(); pass = nondet_size_t();
    attempts = nondet_size_t(); hash_size = nondet_int(); found = nondet_bool();
#ifndef YV_NO_ARENA_INIT
    for (size_t i = 0; i < NCLS; ++i) { yv_class c; g_classes[i] = c; }
#endif
    __CPROVER_assume(g_ncls <= NCLS);
    first = g_classes; last = g_classes + g_ncls; buckets_p = &g_b; g_b.n = nondet_size_t();
    g_err_calls = 0; g_aborted = 0;
    /* the Skolem id */
#ifndef YV_NO_ARENA_INIT
    g_validS = g_cS < g_ncls && g_pS < first[g_cS < NCLS ? g_cS : 0].nids;
    g_idS = first[g_cS < NCLS ? g_cS : 0].ids[g_pS < NIDS ? g_pS : 0];
#endif
    /* hash_max is a previously computed index (or 0): hash_max + 1 does not wrap */
    __CPROVER_assume(hash_max < ((size_t)1 << 62));
}

/* before the pass loop: M is initialised from the number of classes */
void h_pre(void)
{
    arbitrary_state();
    frag_pre();
    __CPROVER_assert(total_attempts == 0 && M >= 1 && M <= 26, "pass loop entry: counters initialised, 1 <= M <= 26 (so 1 << M is defined in all four passes)");
    __CPROVER_assert(N == (ptrdiff_t)g_ncls, "N is the number of classes");
    YV_COVER(g_ncls == NCLS, "arena full");
    YV_COVER(g_ncls == 0 && M == 1, "no class");
}

/* top of one pass */
void h_pass_prologue(void)
{
    arbitrary_state();
    __CPROVER_assume(M >= 1 && M <= 30 && pass < 4);
    type_id mult0 = hash_mult; size_t max0 = hash_max, ta0 = total_attempts;
    frag_pass_prologue();
    __CPROVER_assert(SIZES_OK, "pass prologue: hash_shift == 64 - M and the table has 2^M buckets");
    __CPROVER_assert(!found && attempts == 0, "pass prologue: attempt loop entry state");
    __CPROVER_assert(INV(0, 0), "attempt loop invariant holds on entry (found is false)");
    __CPROVER_assert(hash_max == max0 && total_attempts == ta0, "frame");
    YV_COVER(M == 30, "largest table");
}

/* top of one attempt: every bucket empty, a fresh odd multiplier, nothing visited */
void h_attempt_prologue(void)
{
    arbitrary_state();
    __CPROVER_assume(SIZES_OK && !found && attempts < 100000);
    size_t a0 = attempts, ta0 = total_attempts, max0 = hash_max, sh0 = hash_shift, n0 = buckets_p->n;
    frag_attempt_prologue();
    __CPROVER_assert(found && attempts == a0 + 1 && total_attempts == ta0 + 1, "attempt prologue: counters advance, found is optimistic");
    __CPROVER_assert((hash_mult & 1) == 1, "multiplier is odd");
    __CPROVER_assert(INV(0, 0), "C05 class loop invariant holds on entry: every observed bucket is empty, nothing visited yet");
    __CPROVER_assert(hash_shift == sh0 && buckets_p->n == n0 && hash_max == max0, "frame");
    YV_COVER(g_B < buckets_p->n && g_validS, "Skolem bucket in range");
}

/* inductive step of the id loop = one execution of the innermost body at an arbitrary position */
size_t w_ci, w_ti;
void h_step(void)
{
    arbitrary_state();
    size_t ci = nondet_size_t(), ti = nondet_size_t();
    __CPROVER_assume(ci < g_ncls);
    iter = first + ci;
    __CPROVER_assume(ti < iter->nids);
    type_iter = &iter->ids[ti];
    w_ci = ci; w_ti = ti;
    __CPROVER_assume(SIZES_OK);
    __CPROVER_assume(INV(ci, ti));
    type_id mult0 = hash_mult; size_t max0 = hash_max, sh0 = hash_shift, n0 = buckets_p->n, len0 = hash_length;
    _Bool found0 = found;
    frag_body4();
    if (!g_broke) {
        __CPROVER_assert(found == found0, "without a collision found is unchanged");
        __CPROVER_assert(INV(ci, ti + 1), "C05 step: after storing this id every visited registered id still sits in the bucket its hash selects, and every non-empty bucket holds a registered id");
    } else {
        __CPROVER_assert(!found, "a collision clears found before leaving the id loop");
    }
    __CPROVER_assert(hash_mult == mult0 && hash_shift == sh0 && buckets_p->n == n0 && hash_length == len0, "frame: hash parameters and table size untouched by the body");
    __CPROVER_assert(hash_max >= max0 && hash_max < ((size_t)1 << 62), "hash_max only grows and stays an index");
    __CPROVER_assert(iter == first + ci && type_iter == &iter->ids[ti], "the body does not move the iterators");
    YV_COVER(!g_broke && found && ci == g_cS && ti == g_pS && g_validS, "the Skolem id is stored");
    YV_COVER(g_broke && found0, "collision");
    YV_COVER(!g_broke && found && VISITED(ci, ti) && g_idS != EMPTY, "Skolem id already visited, another id stored");
    YV_COVER(!g_broke && found && g_B == g_hS && ci == g_cS && ti == g_pS && g_validS, "Skolem bucket receives the Skolem id");
}

/* position arithmetic used when composing the steps */
void h_glue(void)
{
    arbitrary_state();
    size_t ci = nondet_size_t();
    __CPROVER_assume(ci < g_ncls);
    __CPROVER_assert(VISITED(ci, first[ci].nids) == VISITED(ci + 1, 0), "leaving the id loop of class ci = entering class ci + 1");
    __CPROVER_assert(!VISITED(0, 0), "nothing is visited at the start");
    __CPROVER_assert(VISITED(g_ncls, 0) == g_validS, "after the class loop every registered id has been visited");
    YV_COVER(g_validS && ci == g_cS, "Skolem class");
}

/* after the attempt loop */
void h_pass_epilogue(void)
{
    arbitrary_state();
    __CPROVER_assume(SIZES_OK && pass < 4);
    __CPROVER_assume(INV(g_ncls, 0));            /* exit state of the class loop */
    size_t max0 = hash_max; _Bool found0 = found; size_t len0 = hash_length;
    frag_pass_epilogue();
    __CPROVER_assert(g_returned == found0, "the search returns exactly when a collision-free multiplier was found");
    if (g_returned) {
        __CPROVER_assert(g_pm == hash_mult && g_ps == hash_shift && g_M == M && SIZES_OK, "installed parameters are those of the successful attempt");
        __CPROVER_assert(hash_length == hash_max + 1 && hash_max == max0, "C05 hash_length covers the largest index ever computed");
        __CPROVER_assert(!(g_validS && g_idS != EMPTY) || SFACT, "C05 every registered id sits in the bucket its hash selects, inside the table, index <= hash_max < hash_length");
        __CPROVER_assert(BFACT, "C05 every bucket is empty or holds a registered id");
        __CPROVER_assert(g_err_calls == 0, "no error reported on success");
    } else {
        __CPROVER_assert(hash_length == len0 && hash_max == max0, "nothing installed after a failed pass");
    }
    YV_COVER(g_returned && g_validS && g_idS != EMPTY, "installed");
    YV_COVER(!g_returned, "failed pass");
}

/* after four failed passes */
void h_tail(void)
{
    arbitrary_state();
    __CPROVER_assume(M >= 1 && M <= 30);
    YV_COVER(1, "tail entered");
    frag_tail();
    __CPROVER_assert(0, "C05 the search never falls through after four failed passes (abort)");
}
'''

BOUNDED = r'''
/* whole function, small instance: glue of the loop skeleton (break leaves only the id loop,
   a failed attempt is retried, four passes, return / abort) */
#define CI ((size_t)(iter - first))
#define TI ((size_t)(type_iter - &iter->ids[0]))
void hash_initialize3(const yv_class *first, const yv_class *last, vec_tid *buckets_p)
{
@BODY@
}
yv_class g_classes[NCLS]; vec_tid g_b;
size_t w_ids[NCLS][NIDS]; size_t w_nids[NCLS]; size_t w_prior_max;
void h_bounded(void)
{
    hash_mult = nondet_uintptr(); hash_shift = nondet_size_t(); hash_length = nondet_size_t();
    hash_min = nondet_size_t(); hash_max = nondet_size_t();
    g_cS = nondet_size_t(); g_pS = nondet_size_t(); g_B = nondet_size_t(); g_ncls = nondet_size_t();
    g_wc = nondet_size_t(); g_wp = nondet_size_t();
    g_cellS = nondet_uintptr(); g_cellB = nondet_uintptr(); g_cellS_idx = nondet_size_t();
    g_err_calls = 0;
    for (size_t i = 0; i < NCLS; ++i) { yv_class c; g_classes[i] = c;
        w_nids[i] = c.nids; for (size_t k = 0; k < NIDS; ++k) w_ids[i][k] = c.ids[k]; }
    __CPROVER_assume(g_ncls <= NCLS && hash_max < ((size_t)1 << 62));
    w_prior_max = hash_max;
    g_b.n = nondet_size_t();
    const yv_class *first = g_classes; vec_tid *buckets_p = &g_b;
    g_validS = g_cS < g_ncls && g_pS < first[g_cS < NCLS ? g_cS : 0].nids;
    g_idS = first[g_cS < NCLS ? g_cS : 0].ids[g_pS < NIDS ? g_pS : 0];
    size_t max0 = hash_max;
    hash_initialize3(g_classes, g_classes + g_ncls, &g_b);
    __CPROVER_assert(g_pm == hash_mult && g_ps == hash_shift, "installed parameters are those of the successful attempt");
    __CPROVER_assert(g_M >= 1 && g_M <= 30 && hash_shift == 64 - g_M && g_b.n == ((size_t)1 << g_M), "table size 2^M, shift 64 - M");
    __CPROVER_assert(hash_length == hash_max + 1, "C05 hash_length covers the largest index");
    __CPROVER_assert(!(g_validS && g_idS != EMPTY) || (g_cellS_idx == g_hS && g_hS < g_b.n && CELL(g_hS) == g_idS && g_hS <= hash_max),
                     "C05 every registered id sits in the bucket its hash selects");
    __CPROVER_assert(!(g_B < g_b.n) || g_cellB == EMPTY || (g_wc < g_ncls && g_wp < first[g_wc].nids && first[g_wc].ids[g_wp] == g_cellB),
                     "C05 every bucket is empty or holds a registered id");
    __CPROVER_assert(g_err_calls == 0, "no error reported on success");
    YV_COVER(g_ncls == NCLS && g_validS && g_cS == NCLS - 1, "installed with a full arena");
    YV_COVER(g_B < g_b.n && g_cellB != EMPTY && g_B != g_hS, "another bucket is occupied");
}
'''

ANCHOR_FILL = r'''
#ifdef YV_CBMC
/* pre-draw the hash value of the Skolem id under the multiplier chosen below (any value in range) */
g_hS_next = nondet_size_t(); __CPROVER_assume(g_hS_next < ((size_t)1 << (64 - hash_shift)));
g_probe1 = g_hS_next; g_probe2 = g_B;
#endif
'''
ANCHOR_MULT = r'''
#ifdef YV_CBMC
g_pm = hash_mult; g_ps = hash_shift; g_hS = g_hS_next;
#endif
'''
ANCHOR_STORE = r'''
#ifdef YV_CBMC
if (index == g_B) { g_wc = CI; g_wp = TI; }
#endif
'''
ANCHOR_FOUND = r'''
#ifdef YV_CBMC
g_M = M;
#endif
'''


# ---------------------------------------------------------------- lookups and the checked wrapper
POST_MACROS = r'''
#define VALID_S_OF(first) (g_cS < g_ncls && g_pS < (first)[g_cS < NCLS ? g_cS : 0].nids)
#define ID_S_OF(first) ((first)[g_cS < NCLS ? g_cS : 0].ids[g_pS < NIDS ? g_pS : 0])
#define SFACT_OF(bp) (g_cellS_idx == g_hS && g_hS < (bp)->n && CELL(g_hS) == g_idS && g_hS <= hash_max)
#define WITNESS_OF(first) (g_wc < g_ncls && g_wp < (first)[g_wc].nids && (first)[g_wc].ids[g_wp] == g_cellB)
'''

LOOKUPS = r'''
vec_tid control;     /* checked_perfect_hash::control (Skolem array: size + observed cells) */

/* fast_perfect_hash::hash_type_id.  Its value is by definition the multiply-shift of its body (lemma L1
   ties it to the expression used when the table is built); the contract states purity and, for callers,
   names the value through the uninterpreted mulshift so that no second 64x64 multiplier is needed. */
#ifdef YV_FAST_AS_CONTRACT
type_id fast_hash_type_id(type_id type)
__CPROVER_assigns()
__CPROVER_ensures(__CPROVER_return_value == __CPROVER_uninterpreted_mulshift(type, hash_mult, hash_shift))
;
#define FAST_VALUE(t) __CPROVER_uninterpreted_mulshift((t), hash_mult, hash_shift)
#else
type_id fast_hash_type_id(type_id type)
__CPROVER_assigns()
__CPROVER_ensures(hash_shift >= 1 && hash_shift < 64 ==> __CPROVER_return_value < ((size_t)1 << (64 - hash_shift)))
{
@FAST_BODY@
}
#define FAST_VALUE(t) fast_hash_type_id(t)
#endif

#undef YV_AT_ABORT
#define YV_AT_ABORT __CPROVER_assert(g_err_calls == 1 && g_err_kind == YV_ERR_UNKNOWN_CLASS && g_err_type == type, \
        "C15/C05 a rejected id is reported once as unknown_class_error carrying that id, before aborting"); \
    __CPROVER_assert(FAST_VALUE(type) >= hash_length || FAST_VALUE(type) != g_B || g_cellB != type, \
        "C05 only ids that fail the range / identity test are rejected")

/* checked_perfect_hash::hash_type_id */
type_id checked_hash_type_id(type_id type)
__CPROVER_requires(control.n >= hash_length)             /* established by checked hash_initialize: control.size() == hash_length */
__CPROVER_assigns(G, E)
/* returns normally only for an id that passes the range and identity test */
__CPROVER_ensures(__CPROVER_return_value == FAST_VALUE(type))
__CPROVER_ensures(__CPROVER_return_value < hash_length)
__CPROVER_ensures(__CPROVER_return_value == g_B ==> g_cellB == type)
__CPROVER_ensures(g_err_calls == __CPROVER_old(g_err_calls) && g_cellB == __CPROVER_old(g_cellB))
{
@CHECKED_BODY@
}

void h_fast_lookup(void)
{
    hash_mult = nondet_uintptr(); hash_shift = nondet_size_t();
    __CPROVER_assume(hash_shift < 64);
    type_id t = nondet_uintptr();
    type_id r = fast_hash_type_id(t);
    YV_COVER(r == 3, "index 3");
}

void h_checked_lookup(void)
{
    hash_mult = nondet_uintptr(); hash_shift = nondet_size_t(); hash_length = nondet_size_t();
    __CPROVER_assume(hash_shift < 64);
    control.n = nondet_size_t();
    g_B = nondet_size_t(); g_cellB = nondet_uintptr(); g_cellS = nondet_uintptr(); g_cellS_idx = nondet_size_t();
    __CPROVER_assume(g_cellS_idx != g_B || 1);
    g_err_calls = 0;
    type_id t = nondet_uintptr();
    type_id r = checked_hash_type_id(t);
    YV_COVER(r == g_B, "accepted at the observed cell");
    YV_COVER(r != g_B, "accepted elsewhere");
}
'''

CHECKED_INIT = r'''
vec_tid control;

/* contract of fast_perfect_hash::hash_initialize(first, last, buckets) = the facts established by the
   decomposed obligations (hi-pass-epilogue asserts exactly these on return) */
void hash_initialize3(const yv_class *first, const yv_class *last, vec_tid *buckets_p)
__CPROVER_requires(hash_max < ((size_t)1 << 62))
__CPROVER_assigns(P, buckets_p->n, G, E)
__CPROVER_ensures(g_validS == VALID_S_OF(first) && g_idS == ID_S_OF(first))
__CPROVER_ensures(g_pm == hash_mult && g_ps == hash_shift)
__CPROVER_ensures(g_M >= 1 && g_M <= 30 && hash_shift == 64 - g_M && buckets_p->n == ((size_t)1 << g_M))
__CPROVER_ensures(hash_length == hash_max + 1 && hash_max >= __CPROVER_old(hash_max) && hash_max < ((size_t)1 << 62))
__CPROVER_ensures(!(g_validS && g_idS != EMPTY) || SFACT_OF(buckets_p))
__CPROVER_ensures(g_B < buckets_p->n ==> (g_cellB == EMPTY || WITNESS_OF(first)))
__CPROVER_ensures(g_err_calls == __CPROVER_old(g_err_calls))
;

/* checked_perfect_hash::hash_initialize(first, last) */
void checked_hash_initialize(const yv_class *first, const yv_class *last)
__CPROVER_requires(__CPROVER_is_fresh(first, NCLS * sizeof(yv_class)) && g_ncls <= NCLS && last == first + g_ncls)
__CPROVER_requires(hash_max < ((size_t)1 << 62))
__CPROVER_assigns(P, control.n, G, E)
/* C05 (checked): the control table has exactly hash_length entries */
__CPROVER_ensures(control.n == hash_length && hash_length == hash_max + 1)
__CPROVER_ensures(g_M >= 1 && g_M <= 30 && hash_shift == 64 - g_M)
/* every registered id (Skolem) is found at its hashed index, inside the table */
__CPROVER_ensures(!(g_validS && g_idS != EMPTY) || (SFACT_OF(&control) && g_hS < ((size_t)1 << g_M)))
/* every entry (Skolem) is empty, a registered id, or - only beyond the 2^M indexes a lookup can produce - zero */
__CPROVER_ensures(g_B < control.n ==> (g_cellB == EMPTY || WITNESS_OF(first) || (g_B >= ((size_t)1 << g_M) && g_cellB == 0)))
__CPROVER_ensures(g_err_calls == __CPROVER_old(g_err_calls))
{
@CHECKED_INIT_BODY@
}

/* fast_perfect_hash::hash_initialize(first, last): a local vector is used */
void fast_hash_initialize2(const yv_class *first, const yv_class *last)
__CPROVER_requires(__CPROVER_is_fresh(first, NCLS * sizeof(yv_class)) && g_ncls <= NCLS && last == first + g_ncls)
__CPROVER_requires(hash_max < ((size_t)1 << 62))
__CPROVER_assigns(P, G, E)
__CPROVER_ensures(g_M >= 1 && g_M <= 30 && hash_shift == 64 - g_M && hash_length == hash_max + 1)
/* every registered id (Skolem) got its own index below 2^M, <= hash_max < hash_length */
__CPROVER_ensures(!(g_validS && g_idS != EMPTY) || (g_pm == hash_mult && g_ps == hash_shift && g_hS < ((size_t)1 << g_M) && g_hS <= hash_max))
__CPROVER_ensures(g_err_calls == __CPROVER_old(g_err_calls))
{
@FAST_INIT2_BODY@
}

static void havoc_statics(void)
{
    hash_mult = nondet_uintptr(); hash_shift = nondet_size_t(); hash_length = nondet_size_t();
    hash_min = nondet_size_t(); hash_max = nondet_size_t();
    g_cS = nondet_size_t(); g_pS = nondet_size_t(); g_B = nondet_size_t(); g_ncls = nondet_size_t();
    g_cellS = nondet_uintptr(); g_cellB = nondet_uintptr(); g_cellS_idx = nondet_size_t();
    control.n = nondet_size_t();
    g_err_calls = 0;
}
void h_checked_init(void)
{
    havoc_statics();
    const yv_class *first, *last;
    checked_hash_initialize(first, last);
    YV_COVER(hash_length > ((size_t)1 << g_M) && g_B >= ((size_t)1 << g_M) && g_B < control.n, "stale hash_max: zero padding beyond 2^M");
    YV_COVER(hash_length < ((size_t)1 << g_M), "table shrunk to hash_length");
    YV_COVER(g_validS && g_idS != EMPTY && g_B == g_hS, "observed entry holds the Skolem id");
}
void h_fast_init2(void)
{
    havoc_statics();
    const yv_class *first, *last;
    fast_hash_initialize2(first, last);
    YV_COVER(g_validS && g_idS != EMPTY, "a registered id");
}

/* rejection lemma: what the checked lookup accepts is registered.  Facts = postconditions of
   checked hash_initialize (at Skolem bucket B := the lookup's index) and of the checked lookup. */
void h_rejection_lemma(void)
{
    size_t M = nondet_size_t(), hlen = nondet_size_t(), n = nondet_size_t(), B = nondet_size_t();
    type_id cellB = nondet_uintptr(), t = nondet_uintptr(), widen = nondet_uintptr();
    _Bool witness = nondet_bool();      /* "cellB is the id registered at (wc, wp)" */
    __CPROVER_assume(M >= 1 && M <= 30 && n == hlen);
    __CPROVER_assume(B < n ==> (cellB == EMPTY || witness || (B >= ((size_t)1 << M) && cellB == 0)));   /* checked init, clause 4 */
    /* lookup returned normally with index B: */
    __CPROVER_assume(B < hlen && cellB == t);
    __CPROVER_assume(B < ((size_t)1 << M));                                                           /* L2 */
    __CPROVER_assert(t == EMPTY || witness, "C05/C15 an id accepted by the checked lookup is a registered id (or the invalid id -1)");
    YV_COVER(witness && t != EMPTY, "accepted");
}
'''


def hash_expr_rule(min_count):
    """(a * b) >> hash_shift with one operand `hash_mult` -> YV_HASH(other)"""
    rx = re.compile(r'\(\s*(\w+)\s*\*\s*(\w+)\s*\)\s*>>\s*hash_shift\b')

    def rule(ex, body):
        n = [0]

        def rep(m):
            a, b = m.group(1), m.group(2)
            if a == 'hash_mult' and b != 'hash_mult':
                n[0] += 1
                return 'YV_HASH(%s)' % b
            if b == 'hash_mult' and a != 'hash_mult':
                n[0] += 1
                return 'YV_HASH(%s)' % a
            return m.group(0)
        body = rx.sub(rep, body)
        ex.rules_fired.append(('multiply-shift -> YV_HASH', n[0]))
        ex.hash_rule_count = n[0]
        return body
    return rule


INIT3_RULES = [
    X.drop_trace,
    X.Rule('constexpr trace flag', r'constexpr\s+bool\s+trace_enabled\s*=\s*Policy::template\s+has_facet<trace_output>\s*;', '', 1, 1),
    X.Rule('std::distance', r'std::distance\(\s*(\w+)\s*,\s*(\w+)\s*\)', r'((\2) - (\1))', 1, 1),
    X.Rule('random engine decl', r'std::default_random_engine\s+rnd\(13081963\)\s*;', '', 1, 1),
    X.Rule('distribution decl', r'std::uniform_int_distribution<type_id>\s+uniform_dist\s*;', '', 1, 1),
    X.Rule('uniform_dist(rnd)', r'\buniform_dist\(rnd\)', 'YV_RANDOM()', 1, 1),
    X.Rule('auto in for-init', r'for\s*\(\s*auto\s+(\w+)\s*=', r'for (__auto_type \1 ='),
    X.split_auto_declarators,
    X.method_call(r'\bbuckets', 'resize', lambda o, a: 'vec_tid_resize(&%s, %s, %s)' % (o, a[0], '(type_id)(%s)' % a[1] if len(a) > 1 else '0'), 'vector.resize(n[, v])', 1),
    X.Rule('type_id()', r'\btype_id\(\)', '((type_id)0)'),
    X.Rule('std::fill over the vector', r'std::fill\(\s*buckets\.begin\(\),\s*buckets\.end\(\),\s*', 'vec_tid_fill(&buckets, ', 1, 1),
    X.Rule('type_id_begin()', r'(\w+)->type_id_begin\(\)', r'TYPE_ID_BEGIN(\1)'),
    X.Rule('type_id_end()', r'(\w+)->type_id_end\(\)', r'TYPE_ID_END(\1)'),
    X.Rule('buckets[i]', r'\bbuckets\[(\w+)\]', r'(*yv_bucket(&buckets, \1))', 2, 2),
    X.Rule('if constexpr error_handler', r'if\s+constexpr\s*\(\s*has_facet<Policy,\s*error_handler>\s*\)', 'if (YV_HAS_ERROR_HANDLER)', 1, 1),
    X.Rule('Policy::error(error_type(e))', r'Policy::error\(error_type\((\w+)\)\)\s*;', r'YV_POLICY_ERROR(\1);', 1, 1),
    X.Rule('abort()', r'\babort\(\)\s*;', 'yv_abort();', 1, 1),
    X.ref_param('buckets', 4),
] + X.COMMON_RULES + [X.Rule('functional cast size_t(e)', r'(?<![\w)])size_t\(', '(size_t)(')]


def clean(name, body):
    left = re.sub(r'__auto_type', '', body)
    if re.search(r'\bauto\b|std::|Policy::|\bconstexpr\b|\.begin\(|\.end\(', left):
        raise X.ExtractionBroken('%s: untranslated C++ left: %s' % (name, re.findall(r'[^\n]*(?:std::|Policy::|constexpr|\bauto\b)[^\n]*', left)[:2]))


def make_init3():
    ex = X.find_function(
        REL, r'template<class Policy>\s*template<typename ForwardIterator>\s*void\s+fast_perfect_hash<Policy>::hash_initialize\s*\('
             r'\s*ForwardIterator\s+first,\s*ForwardIterator\s+last,\s*std::vector<type_id>&\s*buckets\s*\)')
    rules = list(INIT3_RULES)
    rules.insert(len(rules) - len(X.COMMON_RULES) - 1, hash_expr_rule(1))
    X.apply_rules(ex, rules)
    clean('hash_initialize', ex.body)
    # the build-time index expression (for L1) is taken from the ORIGINAL text
    return ex


def build_expr_original():
    ex = X.find_function(
        REL, r'template<class Policy>\s*template<typename ForwardIterator>\s*void\s+fast_perfect_hash<Policy>::hash_initialize\s*\('
             r'\s*ForwardIterator\s+first,\s*ForwardIterator\s+last,\s*std::vector<type_id>&\s*buckets\s*\)')
    m = [e for e in re.findall(r'auto\s+index\s*=\s*([^;]+);', ex.body) if 'hash_mult' in e]
    if len(m) != 1:
        raise X.ExtractionBroken('hash_initialize: index expression not found')
    return ex, m[0].strip()


def canonical_products(expr):
    """a * b with both operands plain identifiers -> operands in lexicographic
    order (commutativity of multiplication modulo 2^64 is the one arithmetic
    fact trusted; SAT cannot relate two 64x64 multipliers)."""
    def rep(m):
        a, b = sorted([m.group(1), m.group(2)])
        return '%s * %s' % (a, b)
    e = re.sub(r'\b(\w+)\s*\*\s*(\w+)\b', rep, expr)
    # the one shared 64x64 product is computed once (yv_prod) so that the solver compares
    # the rest of the two expressions, not two multiplier circuits
    return e.replace('hash_mult * type', 'yv_prod')


def fast_lookup():
    ex = X.find_function(REL, r'hash_type_id\s*\(\s*type_id\s+type\s*\)', 0)
    return ex


EXPECTED_HEADERS = [
    None,  # size loop: any header (it is unwound, operand-width bounded)
    'for (size_t pass = 0; pass < 4; ++pass, ++M)',
    'while (!found && attempts < 100000)',
    'for (__auto_type iter = first; iter != last; ++iter)',
    'for (__auto_type type_iter = TYPE_ID_BEGIN(iter); type_iter != TYPE_ID_END(iter); ++type_iter)',
]

LOCAL_DECLS = ['N', 'total_attempts', 'M', 'hash_size', 'found', 'attempts']


def undeclare_locals(text):
    """`T x = e;` for the function's locals -> `x = e;` (the locals are globals
    of the harness so that the obligations can mention them)"""
    for name in LOCAL_DECLS:
        text, n = re.subn(r'(?:\bconst\s+)?\b(?:bool|size_t|__auto_type)\s+%s\s*=' % name, '%s =' % name, text)
        if n != 1:
            raise X.ExtractionBroken('hash_initialize: local %s declared %d times (expected once)' % (name, n))
    return text


def decompose(ex):
    """Cut the rewritten + woven body at its loop boundaries."""
    body = ex.body
    hs = X.loop_headers(body)
    if len(hs) != 5:
        raise X.ExtractionBroken('hash_initialize: %d loops (expected 5)' % len(hs))
    blocks = []
    for k, (kw, a, b) in enumerate(hs):
        m = re.compile(r'\s*\{').match(body, b)
        if not m:
            raise X.ExtractionBroken('loop %d has no block body' % k)
        ob = m.end() - 1
        cb = X.match_close(body, ob)
        blocks.append((a, b, ob, cb))
        hdr = X.norm_ws(body[a:b])
        if EXPECTED_HEADERS[k] is not None and hdr != EXPECTED_HEADERS[k]:
            raise X.ExtractionBroken('loop %d header is `%s`, the proof skeleton expects `%s`' % (k, hdr, EXPECTED_HEADERS[k]))
    (a0, b0, ob0, cb0), (a1, b1, ob1, cb1), (a2, b2, ob2, cb2), (a3, b3, ob3, cb3), (a4, b4, ob4, cb4) = blocks
    # nesting: 1 > 2 > 3 > 4, loop 0 before loop 1
    if not (cb0 < a1 and ob1 < a2 and cb2 < cb1 and ob2 < a3 and cb3 < cb2 and ob3 < a4 and cb4 < cb3):
        raise X.ExtractionBroken('hash_initialize: unexpected loop nesting')
    if body[ob3 + 1:a4].strip() or body[cb4 + 1:cb3].strip():
        raise X.ExtractionBroken('hash_initialize: the class loop contains more than the id loop')
    if body[cb3 + 1:cb2].strip():
        raise X.ExtractionBroken('hash_initialize: statements after the class loop inside the attempt loop')
    seg = {
        'PRE': body[:cb0 + 1],
        'PASS_PRO': body[ob1 + 1:a2],
        'ATT_PRO': body[ob2 + 1:a3],
        'BODY4': body[ob4 + 1:cb4],
        'PASS_EPI': body[cb2 + 1:cb1],
        'TAIL': body[cb1 + 1:],
    }
    if body[cb0 + 1:a1].strip():
        raise X.ExtractionBroken('hash_initialize: statements between the size loop and the pass loop')
    joined = undeclare_locals('\x00'.join(seg[k] for k in ('PRE', 'PASS_PRO', 'ATT_PRO', 'BODY4', 'PASS_EPI', 'TAIL')))
    parts = joined.split('\x00')
    return dict(zip(('PRE', 'PASS_PRO', 'ATT_PRO', 'BODY4', 'PASS_EPI', 'TAIL'), parts))


HI_TRUSTED = ['std::vector<type_id> as a Skolem array: size + the two cells the proof observes; resize / std::fill / operator[] per [vector.capacity], [alg.fill] on those cells, any other cell reads arbitrary and ignores writes, every index is bounds-checked',
              'std::distance(first, last) on the class range as pointer difference',
              'std::default_random_engine / uniform_int_distribution: any 64-bit value may be drawn (over-approximation)',
              'class range: arena of classes with 0..3 ids each (type_id_begin()/end() = pointer range)']
HI_ASSUME = ['(type * hash_mult) >> hash_shift is an uninterpreted function inside these obligations; lemmas-L1L2 prove on the real expressions that build-time and lookup-time expressions agree, and the range fact',
             'registered ids differ from (type_id)-1, the library\'s empty-bucket marker / invalid id (precondition of the Skolem clause)',
             'prior hash_max < 2^62 (it is a previously computed index); every other static starts arbitrary',
             'composition of the inductive base / step / exit obligations into the postcondition of the whole function relies on the loop skeleton having the '
             'expected shape (checked textually each run: four loop headers, nesting, no statement between the nested loops) - the skeleton is additionally '
             'exercised by the bounded whole-function job',
             'Skolemisation: the obligations are proved for an arbitrary registered id and an arbitrary bucket, hence for all']


LOOKUP_RULES = [
    X.split_auto_declarators,
    X.Rule('fast_perfect_hash<Policy>::hash_type_id', r'fast_perfect_hash<Policy>::hash_type_id\(', 'fast_hash_type_id('),
    X.Rule('fast_perfect_hash<Policy>::hash_length', r'fast_perfect_hash<Policy>::hash_length\b', 'hash_length'),
    X.Rule('fast_perfect_hash<Policy>::hash_initialize', r'fast_perfect_hash<Policy>::hash_initialize\(\s*(\w+)\s*,\s*(\w+)\s*,\s*(\w+)\s*\)',
           r'hash_initialize3(\1, \2, &\3)'),
    X.Rule('hash_initialize(first, last, local)', r'(?<![\w:])hash_initialize\(\s*(\w+)\s*,\s*(\w+)\s*,\s*(\w+)\s*\)', r'hash_initialize3(\1, \2, &\3)'),
    X.Rule('std::vector<type_id> local', r'std::vector<type_id>\s+(\w+)\s*;', r'vec_tid \1; \1.n = 0;'),
    X.Rule('control[i]', r'\bcontrol\[(\w+)\]', r'(*yv_bucket(&control, \1))'),
    X.method_call(r'\bcontrol', 'resize', lambda o, a: 'vec_tid_resize(&%s, %s, %s)' % (o, a[0], '(type_id)(%s)' % a[1] if len(a) > 1 else '0'), 'vector.resize'),
    X.Rule('if constexpr error_handler', r'if\s+constexpr\s*\(\s*Policy::template\s+has_facet<error_handler>\s*\)', 'if (YV_HAS_ERROR_HANDLER)'),
    X.Rule('unknown_class_error::update', r'unknown_class_error::update\b', 'unknown_class_error_update'),
    X.Rule('Policy::error(e)', r'Policy::error\((\w+)\)\s*;', r'YV_POLICY_ERROR(\1);'),
    X.Rule('abort()', r'\babort\(\)\s*;', 'yv_abort();'),
] + X.COMMON_RULES


def lookup_jobs():
    out = []
    exf = fast_lookup()
    X.apply_rules(exf, X.COMMON_RULES)
    exc = X.find_function(REL, r'hash_type_id\s*\(\s*type_id\s+type\s*\)', 1)
    X.apply_rules(exc, LOOKUP_RULES)
    clean('checked hash_type_id', exc.body)
    c = STATICS + GHOST + LOOKUPS.replace('@FAST_BODY@', exf.body).replace('@CHECKED_BODY@', exc.body)
    fd = ['%s fast_perfect_hash::hash_type_id sha256:%s' % (exf.where(), exf.sha()),
          '%s checked_perfect_hash::hash_type_id sha256:%s' % (exc.where(), exc.sha())]
    tr = ['Policy statics as globals; the control vector as a Skolem array (size + observed cell, every index bounds-checked)',
          'Policy::error as a logging stub; abort() ends the execution after the abort-point obligations']
    out.append(Job(unit='hashing', config='fast_lookup', c_text=c, entry='h_fast_lookup', enforce='fast_hash_type_id', kind='proof',
                   min_obligations=2, min_cover=1, functions=fd[:1], trusted=tr[:1], extracted=[exf],
                   assumptions=['hash_shift < 64 (installed by hash_initialize: 64 - M, M >= 1)'],
                   props=['C05', 'C01', 'C16'], timeout=300))
    out.append(Job(unit='hashing', config='checked_lookup', c_text=c, entry='h_checked_lookup', enforce='checked_hash_type_id', kind='proof',
                   replace=['fast_hash_type_id'], defines=['YV_FAST_AS_CONTRACT=1'],
                   min_obligations=6, min_cover=2, functions=fd, trusted=tr, extracted=[exc],
                   assumptions=['control.size() >= hash_length (postcondition of checked hash_initialize)'],
                   props=['C05', 'C15', 'C16'], timeout=300))
    # checked / fast two-argument hash_initialize on top of the three-argument one's contract
    exi = X.find_function(REL, r'static\s+void\s+hash_initialize\s*\(\s*ForwardIterator\s+first,\s*ForwardIterator\s+last\s*\)', 1)
    X.apply_rules(exi, LOOKUP_RULES)
    clean('checked hash_initialize', exi.body)
    exi2 = X.find_function(REL, r'static\s+void\s+hash_initialize\s*\(\s*ForwardIterator\s+first,\s*ForwardIterator\s+last\s*\)', 0)
    X.apply_rules(exi2, LOOKUP_RULES)
    clean('fast hash_initialize(first, last)', exi2.body)
    c2 = (STATICS + GHOST + POST_MACROS +
          CHECKED_INIT.replace('@CHECKED_INIT_BODY@', exi.body).replace('@FAST_INIT2_BODY@', exi2.body))
    fd2 = ['%s checked_perfect_hash::hash_initialize(first, last) sha256:%s' % (exi.where(), exi.sha()),
           '%s fast_perfect_hash::hash_initialize(first, last) sha256:%s' % (exi2.where(), exi2.sha())]
    tr2 = ['hash_initialize(first, last, buckets) replaced by its contract (the facts the decomposed obligations hi-* establish on return)',
           'std::vector<type_id>::resize per [vector.capacity] on the Skolem array']
    out.append(Job(unit='hashing', config='checked_initialize', c_text=c2, entry='h_checked_init', enforce='checked_hash_initialize',
                   replace=['hash_initialize3'], kind='proof', min_obligations=8, min_cover=3, functions=fd2[:1], trusted=tr2,
                   extracted=[exi], assumptions=HI_ASSUME[1:3], props=['C05', 'C07', 'C15'], timeout=600))
    out.append(Job(unit='hashing', config='fast_initialize2', c_text=c2, entry='h_fast_init2', enforce='fast_hash_initialize2',
                   replace=['hash_initialize3'], kind='proof', min_obligations=6, min_cover=1, functions=fd2[1:], trusted=tr2,
                   extracted=[exi2], assumptions=HI_ASSUME[1:3], props=['C05', 'C07'], timeout=600))
    out.append(Job(unit='hashing', config='rejection-lemma', c_text=c2, entry='h_rejection_lemma', kind='proof',
                   min_obligations=1, min_cover=1, props=['C05', 'C15'],
                   note='lemma over the postconditions of checked hash_initialize and the checked lookup (no repository code)'))
    return out


def jobs(tier):
    out = lookup_jobs()
    # ---------------- lemmas (concrete arithmetic, original expressions)
    exb, build_expr = build_expr_original()
    exl = fast_lookup()
    X.apply_rules(exl, X.COMMON_RULES)
    lem = (LEMMAS.replace('@FAST_BODY@', canonical_products(exl.body)).replace('@BUILD_EXPR@', canonical_products(build_expr))
           .replace('#define YV_HASH(x) @LOOKUP_EXPR_OF_X@\n', ''))
    out.append(Job(unit='hashing', config='lemmas-L1L2', c_text=lem, entry='h_lemmas', kind='proof',
                   min_obligations=3, min_cover=1, drop_flags=[],
                   functions=['%s fast_perfect_hash::hash_type_id sha256:%s' % (exl.where(), exl.sha()),
                              '%s fast_perfect_hash::hash_initialize [index expression `%s`]' % (exb.where(), build_expr)],
                   trusted=['Policy statics as globals of one translation unit'],
                   assumptions=['64-bit type_id / size_t (LP64), modular multiplication as in C++',
                                'commutativity of multiplication modulo 2^64 (operands of a product of two identifiers are put in lexicographic order before comparison)'],
                   extracted=[exl], props=['C05', 'C01', 'C07', 'C15'], timeout=300))
    # ---------------- the search, decomposed at its loop boundaries
    ex = make_init3()
    fdesc = ['%s fast_perfect_hash::hash_initialize(first, last, buckets) sha256:%s' % (ex.where(), ex.sha())]
    if getattr(ex, 'hash_rule_count', 0) != 1:
        raise X.ExtractionBroken('hash_initialize: the index expression is not of the form (type * hash_mult) >> hash_shift '
                                 '(the loop proof needs it; lemmas-L1L2 compares it with the lookup bit-precisely)')
    X.weave(ex, anchors=[(r'vec_tid_fill\(&\(\*buckets_p\),', ANCHOR_FILL, 'before'),
                         (r'hash_mult\s*=\s*YV_RANDOM\(\)\s*\|\s*1\s*;', ANCHOR_MULT, 'after'),
                         (r'\(\*yv_bucket\(&\(\*buckets_p\),\s*index\)\)\s*=\s*type\s*;', ANCHOR_STORE, 'before'),
                         (r'hash_length\s*=\s*hash_max\s*\+\s*1\s*;', ANCHOR_FOUND, 'after')],
            expect_loops=None)
    whole = ex.body
    if re.search(r'\bhash_type_id\(', whole):
        # a call of the lookup inside the search: its value is the multiply-shift (contract of fast_lookup, lemma L1)
        whole = '#define hash_type_id(x) YV_HASH(x)\n' + whole + '\n#undef hash_type_id\n'
    broken = None
    try:
        if len(X.loop_headers(ex.body)) != 5:
            raise X.ExtractionBroken('%d loops found, the proof skeleton has 5' % len(X.loop_headers(ex.body)))
        seg = decompose(ex)
    except X.ExtractionBroken as e:
        seg, broken = None, str(e)
    if seg is not None:
        c = STATICS + GHOST + DECOMP
        for k, v in seg.items():
            c = c.replace('@%s@' % k, v)
        for cfg, entry, mo, mc, unwind, ncls in (
                ('hi-pre', 'h_pre', 3, 2, 70, 65536),
                ('hi-pass-prologue', 'h_pass_prologue', 4, 1, 20, 16),
                ('hi-attempt-prologue', 'h_attempt_prologue', 4, 1, 20, 16),
                ('hi-step', 'h_step', 8, 4, 20, 16),
                ('hi-glue', 'h_glue', 3, 1, 20, 16),
                ('hi-pass-epilogue', 'h_pass_epilogue', 6, 2, 20, 16),
                ('hi-tail', 'h_tail', 2, 1, 20, 16)):
            out.append(Job(unit='hashing', config=cfg, c_text=c, entry=entry, kind='proof', unwind=unwind,
                           defines=['NCLS=%d' % ncls] + (['YV_NO_ARENA_INIT=1'] if cfg == 'hi-pre' else []), min_obligations=mo, min_cover=mc,
                           functions=fdesc, trusted=HI_TRUSTED, assumptions=HI_ASSUME, extracted=[ex],
                           props=['C05', 'C07', 'C10', 'C15'], timeout=600, expect_fail=(cfg == 'hi-tail'),
                           note='loop-free segment of hash_initialize cut at its loop boundaries; loops in this job are harness loops over the class arena (constant bound, fully unwound)'))
    else:
        j = Job(unit='hashing', config='hi-skeleton', c_text='', entry='none', kind='proof', props=['C05', 'C07', 'C10', 'C15'])
        j.broken = 'loop skeleton of hash_initialize is not the one the inductive obligations were written for: ' + broken
        out.append(j)
    # ---------------- bounded whole-function run (glue of the skeleton)
    ncls = 2      # 3 classes: the cover run and the second SAT back end do not finish within the job budget
    c = STATICS + GHOST + BOUNDED.replace('@BODY@', whole)
    out.append(Job(unit='hashing', config='hi-bounded-%dcls' % ncls, c_text=c, entry='h_bounded', kind='bounded',
                   unwind=5, defines=['NCLS=%d' % ncls],
                   cbmc_extra=['--unwindset', 'hash_initialize3.0:7,hash_initialize3.1:5,hash_initialize3.2:3,hash_initialize3.3:%d,hash_initialize3.4:4' % (ncls + 1)],
                   no_unwinding_assertions=True,
                   bound='whole hash_initialize: <= %d classes x <= 3 ids, <= 2 attempts per pass (paths with more attempts are not explored: no unwinding assertion on the attempt loop), 4 passes' % ncls,
                   min_obligations=6, min_cover=2, functions=fdesc, trusted=HI_TRUSTED,
                   assumptions=HI_ASSUME[:3], extracted=[ex], props=['C05', 'C07', 'C10', 'C15'], timeout=900))
    return out
