"""compiler<Policy>::augment_classes / calculate_covariant_classes (compiler.hpp)
- bounded: one concrete inheritance graph and one concrete way of presenting
it through registration records per job.

C08: provided every direct-base relationship appears in at least one record,
the lattice the compiler reconstructs must be the same however the graph is
presented (complete base lists as register_classes produces them, direct bases
only, with or without the class itself, duplicated entries, one record per
base, records in any order):

  * the covariant set of B is exactly {D | B is D or a direct or indirect base of D};
  * transitive_bases(D) is exactly the set of proper ancestors of D - slot
    allocation (units/slots) reserves slots in them, an incomplete set lets two
    method parameters share a v-table cell;
  * direct_bases / direct_derived are the direct relations, each once.
"""
import re

from engine import extract as X
from engine.core import Job
from engine import replay as R
from units.slots import enumerate_dags

REL = 'include/yorel/yomm2/detail/compiler.hpp'

TEXT = r'''
#include "yv.h"
#ifndef NC
#define NC 4
#endif
#define NREC 12
#define NLIST 64
typedef struct { type_id data[NC]; size_t n; } vec_tid8;
struct cclass;
typedef struct { struct cclass *data[NLIST]; size_t n; } vec_classp;
typedef struct cclass {
    _Bool is_abstract; vec_tid8 type_ids;
    vec_classp transitive_bases, direct_bases, direct_derived, covariant_classes;
    size_t mark, weight; uintptr_t **static_vptr;
} cclass;
#define class_ cclass
/* registration records (class_info): id, base id range */
typedef struct class_info { type_id type; type_id *first_base, *last_base; _Bool is_abstract; uintptr_t **static_vptr; } class_info;
typedef struct { class_info *data; size_t n; } vec_class_info;
vec_class_info yv_policy_classes;
/* compiler::classes (std::deque<class_>): emplace_back never moves elements */
typedef struct { cclass *data; size_t n; } deque_class;
cclass g_arena[NC + 2]; deque_class classes; size_t class_mark;
static cclass *yv_emplace_back(deque_class *d)
{
    __CPROVER_assert(d->n < NC + 2, "C08 one runtime class per registered class (class arena of the harness exceeded)"); __CPROVER_assume(d->n < NC + 2);
    cclass *c = &d->data[d->n++];
    c->is_abstract = 0; c->type_ids.n = 0; c->transitive_bases.n = c->direct_bases.n = c->direct_derived.n = c->covariant_classes.n = 0;
    c->mark = 0; c->weight = 0; c->static_vptr = 0;
    return c;
}
/* class_map: std::unordered_map<type_index, class_*>; keys are small integers here */
#define NKEY 8
cclass *class_map_slots[NKEY];
static cclass **yv_map_at(type_id key) { __CPROVER_assert(key < NKEY, "harness: key range"); __CPROVER_assume(key < NKEY); return &class_map_slots[key]; }
/* Policy::type_index: ids below 16 are their own index; id + 16 is a second id of the same class (many-to-one projection) */
#define YV_TYPE_INDEX(t) ((t) & 15)
static _Bool tid_contains(const vec_tid8 *v, type_id t) { for (size_t i = 0; i < v->n; ++i) if (v->data[i] == t) return 1; return 0; }
static void tid_push(vec_tid8 *v, type_id t) { __CPROVER_assert(v->n < NC, "harness: ids per class"); __CPROVER_assume(v->n < NC); v->data[v->n++] = t; }
static void cp_push(vec_classp *v, cclass *c) { __CPROVER_assert(v->n < NLIST, "C08 a list of bases / derived classes stays finite (it outgrows the harness capacity only if a class is expanded into its own list)"); __CPROVER_assume(v->n < NLIST); v->data[v->n++] = c; }
static void cp_swap(vec_classp *a, vec_classp *b) { vec_classp t = *a; *a = *b; *b = t; }
/* std::sort with the comparator a->weight > b->weight: one of the permutations it may produce (insertion sort) */
static void cp_sort_by_weight_desc(vec_classp *v)
{
    for (size_t i = 1; i < v->n; ++i) {
        cclass *x = v->data[i]; size_t j = i;
        while (j > 0 && x->weight > v->data[j - 1]->weight) { v->data[j] = v->data[j - 1]; --j; }
        v->data[j] = x;
    }
}
/* std::unordered_set<class_*> as a duplicate-free list */
static _Bool set_contains(const vec_classp *s, const cclass *c) { for (size_t i = 0; i < s->n; ++i) if (s->data[i] == c) return 1; return 0; }
static void set_insert(vec_classp *s, cclass *c) { if (!set_contains(s, c)) cp_push(s, c); }
static void set_insert_all(vec_classp *dst, const vec_classp *src) { for (size_t i = 0; i < src->n; ++i) set_insert(dst, src->data[i]); }
/* errors */
typedef struct { int context; type_id type; } unknown_class_error;
size_t g_err_calls; type_id g_err_type; _Bool g_aborted;
static void policy_error_unknown_class(const unknown_class_error *e) { ++g_err_calls; g_err_type = e->type; }
#define yv_abort() do { g_aborted = 1; YV_AT_ABORT; __CPROVER_assume(0); } while (0)
#define YV_AT_ABORT __CPROVER_assert(g_expect_unknown && g_err_calls == 1 && g_err_type == g_unknown_id, \
    "C15 an unregistered base class is reported once as unknown_class_error with its id before aborting (and only then)")
_Bool g_expect_unknown; type_id g_unknown_id;

static void calculate_covariant_classes(cclass *cls_p);
static void augment_classes(void)
{
@AUGMENT@
}
static void calculate_covariant_classes(cclass *cls_p)
{
#define cls (*cls_p)
@COVARIANT@
#undef cls
}

/* ---- harness: one graph, one presentation ---- */
static const unsigned long long cfg_anc_bits = CFG_ANC;      /* bit d * NC + b: b is a proper ancestor of d */
static const unsigned long long cfg_dir_bits = CFG_DIR;      /* direct bases */
#define ANC(d, b) ((cfg_anc_bits >> ((d) * NC + (b))) & 1ull)
#define DIR(d, b) ((cfg_dir_bits >> ((d) * NC + (b))) & 1ull)
type_id g_lists[NREC][NC + 2]; class_info g_rec[NREC]; uintptr_t *g_svp[NC];
static cclass *cls_of(size_t i) { return class_map_slots[YV_TYPE_INDEX(i + 1)]; }
static size_t idx_of(const cclass *c) { for (size_t i = 0; i < NC; ++i) if (i < CFG_N && cls_of(i) == c) return i; return NC; }

void h_augment(void)
{
    static const type_id cfg_rec_type[NREC] = CFG_REC_TYPE;          /* record -> id of its class */
    static const size_t cfg_rec_len[NREC] = CFG_REC_LEN;
    static const size_t cfg_rec_bases[NREC][NC + 2] = CFG_REC_BASES; /* listed base ids (class index + 1) */
    size_t n = CFG_N, nrec = CFG_NREC;
    yv_policy_classes.data = g_rec; yv_policy_classes.n = nrec;
    classes.data = g_arena; classes.n = 0; class_mark = 0; /* compiler::class_mark starts at 0 in every compiler object */
    for (size_t r = 0; r < NREC; ++r) {
        g_rec[r].type = cfg_rec_type[r];
        for (size_t k = 0; k < NC + 2; ++k) g_lists[r][k] = cfg_rec_bases[r][k];
        g_rec[r].first_base = g_lists[r]; g_rec[r].last_base = g_lists[r] + cfg_rec_len[r];
        g_rec[r].is_abstract = 0; g_rec[r].static_vptr = &g_svp[r < nrec ? (cfg_rec_type[r] & 15) - 1 : 0];
    }
    g_expect_unknown = CFG_UNKNOWN != 0; g_unknown_id = CFG_UNKNOWN; g_err_calls = 0;

    augment_classes();

    __CPROVER_assert(!g_expect_unknown, "C15 update does not complete when a listed base is not a registered class");
    __CPROVER_assert(classes.n == n, "C08 one runtime class per registered class, however many records name it");
    for (size_t d = 0; d < NC; ++d) {
        if (d >= n) continue;
        cclass *D = cls_of(d);
        __CPROVER_assert(D != 0 && D->type_ids.n == CFG_IDS && tid_contains(&D->type_ids, d + 1) && (CFG_IDS == 1 || tid_contains(&D->type_ids, d + 17)),
                         "C08 the class is known under its id(s), each once");
        size_t nanc = 0, ndir = 0, nder = 0, ncov = 0;
        for (size_t b = 0; b < NC; ++b) {
            if (b >= n) continue;
            cclass *B = cls_of(b);
            _Bool is_anc = ANC(d, b), is_dir = DIR(d, b);
            nanc += is_anc; ndir += is_dir; nder += DIR(b, d); ncov += (b == d || ANC(b, d));
            __CPROVER_assert(set_contains(&D->transitive_bases, B) == is_anc,
                             "C08 transitive_bases(D) is exactly the set of direct and indirect bases of D (slot allocation reserves slots in them)");
            __CPROVER_assert(set_contains(&D->direct_bases, B) == is_dir, "C08 direct_bases(D) is exactly the set of direct bases of D");
            __CPROVER_assert(set_contains(&D->direct_derived, B) == (_Bool)DIR(b, d), "C08 direct_derived(D) is exactly the set of classes D is a direct base of");
            __CPROVER_assert(set_contains(&D->covariant_classes, B) == (b == d || ANC(b, d)),
                             "C08 B is acceptable where D is expected exactly when D is B or a direct or indirect base of B");
        }
        __CPROVER_assert(D->transitive_bases.n == nanc && D->direct_bases.n == ndir && D->direct_derived.n == nder && D->covariant_classes.n == ncov,
                         "C08 no duplicates in the reconstructed lattice");
        __CPROVER_assert(D->weight == nanc, "weight = number of proper bases");
    }
#if CFG_UNKNOWN == 0
    YV_COVER(1, "augment_classes returns");
#endif
}
'''


def auto_ref_locals(ex, body):
    """`auto& x = e;` -> pointer to e plus an lvalue macro, undefined at the end of the enclosing block."""
    rx = re.compile(r'(?:const\s+)?auto&\s+(\w+)\s*=\s*([^;]+);')
    n = 0
    pos = 0
    while True:
        m = rx.search(body, pos)
        if not m:
            break
        name, expr = m.group(1), m.group(2).strip()
        # end of the enclosing block
        depth = 0
        j = m.end()
        end = None
        while j < len(body):
            c = body[j]
            if c == '{':
                depth += 1
            elif c == '}':
                if depth == 0:
                    end = j
                    break
                depth -= 1
            j += 1
        if end is None:
            end = len(body)
        head = '__typeof__(%s) *%s_p = &(%s);\n#define %s (*%s_p)\n' % (expr, name, expr, name, name)
        body = body[:m.start()] + head + body[m.end():end] + '\n#undef %s\n' % name + body[end:]
        pos = m.start() + len(head)
        n += 1
    ex.rules_fired.append(('auto& local reference -> pointer + lvalue macro', n))
    return body


def range_loops(ex, body):
    """`for (auto& x : V) {` / `for (auto x : V) {` -> index loops over the shim vector V; a by-reference
    element is a pointer plus an lvalue macro undefined after the loop's closing brace."""
    rx = re.compile(r'for\s*\(\s*auto(&?)\s+(\w+)\s*:\s*([\w.>-]+)\s*\)\s*\{')
    n = 0
    pos = 0
    while True:
        m = rx.search(body, pos)
        if not m:
            break
        ob = m.end() - 1
        cb = X.match_close(body, ob)
        ref, x, v = m.group(1), m.group(2), m.group(3)
        if ref:
            head = ('for (size_t yv_i_%s = 0; yv_i_%s < VEC_SIZE(%s); ++yv_i_%s) {\n__typeof__(%s.data[0]) *const %s_p = &%s.data[yv_i_%s];\n#define %s (*%s_p)\n'
                    % (x, x, v, x, v, x, v, x, x, x))
            tail = '}\n#undef %s\n' % x
        else:
            head = ('for (size_t yv_i_%s = 0; yv_i_%s < VEC_SIZE(%s); ++yv_i_%s) {\n__typeof__(%s.data[0]) %s = %s.data[yv_i_%s];\n' % (x, x, v, x, v, x, v, x))
            tail = '}\n'
        body = body[:m.start()] + head + body[ob + 1:cb] + tail + body[cb + 1:]
        pos = m.start() + len(head)
        n += 1
    if n < 1:
        raise X.ExtractionBroken('range-for loops: %d found' % n)
    ex.rules_fired.append(('range-for over vector / deque / set -> index loop', n))
    return body


RULES = [
    X.drop_trace,
    X.Rule('using namespace', r'\busing\s+namespace\s+[\w:]+\s*;', ''),
    X.Rule('Policy::type_index', r'Policy::type_index\(', 'YV_TYPE_INDEX('),
    X.Rule('class_map[key]', r'\bclass_map\[((?:[^\[\]]|\[[^\]]*\])*)\]', r'(*yv_map_at(\1))'),
    X.Rule('classes.emplace_back()', r'\bclasses\.emplace_back\(\)', '(*yv_emplace_back(&classes))'),
    X.Rule('std::find(type_ids) == end', r'std::find\(\s*(\w+)->type_ids\.begin\(\),\s*\1->type_ids\.end\(\),\s*([^)]+)\)\s*==\s*\1->type_ids\.end\(\)',
           r'!tid_contains(&\1->type_ids, \2)'),
    X.Rule('type_ids.push_back', r'(\w+)->type_ids\.push_back\(', r'tid_push(&\1->type_ids, '),
    X.Rule('vector<class_*>.push_back', r'\b([\w.>-]*(?:transitive_bases|direct_bases|direct_derived|bases))\.push_back\(', r'cp_push(&\1, '),
    X.Rule('vector<class_*>[i]', r'\b([\w.>-]*transitive_bases)\[(\w+)\]', r'\1.data[\2]'),
    X.Rule('decltype(v) local', r'decltype\([\w.]+\)\s+(\w+)\s*;', r'vec_classp \1; \1.n = 0;'),
    X.Rule('swap', r'\b([\w.]+)\.swap\((\w+)\)', r'cp_swap(&\1, &\2)'),
    X.Rule('std::sort by weight', r'std::sort\(\s*([\w.]+)\.begin\(\),\s*\1\.end\(\),\s*\[\]\(auto\s+a,\s*auto\s+b\)\s*\{\s*return\s+a->weight\s*>\s*b->weight;\s*\}\s*\)',
           r'cp_sort_by_weight_desc(&\1)'),
    X.Rule('v.empty()', r'\b([\w.>-]+(?:covariant_classes|transitive_bases|direct_bases|direct_derived|type_ids))\.empty\(\)', r'(VEC_SIZE(\1) == 0)'),
    X.Rule('covariant_classes.insert(x)', r'\b([\w.>-]+covariant_classes)\.insert\(', r'set_insert(&\1, '),
    X.Rule('std::copy(set) with inserter', r'std::copy\(\s*([\w.>-]+)\.begin\(\),\s*\1\.end\(\),\s*std::inserter\(\s*([\w.>-]+),\s*\2\.end\(\)\s*\)\s*\)',
           r'set_insert_all(&\2, &\1)'),
    X.Rule('calculate_covariant_classes(*p)', r'calculate_covariant_classes\(\s*\*(\w+)\s*\)', r'calculate_covariant_classes(\1)'),
    X.Rule('calculate_covariant_classes(ref)', r'calculate_covariant_classes\(\s*(rtc)\s*\)', r'calculate_covariant_classes(&\1)'),
    X.eval_if_constexpr(lambda c: {'Policy::templatehas_facet<policy::error_handler>': True, 'trace_enabled': False}.get(re.sub(r'\s+', '', c))),
    X.Rule('Policy::error(error_type(e))', r'Policy::error\(error_type\((\w+)\)\)\s*;', r'policy_error_unknown_class(&\1);'),
    X.Rule('abort()', r'\babort\(\)\s*;', 'yv_abort();'),
    X.Rule('Policy::classes', r'Policy::classes\b', 'yv_policy_classes'),
    X.Rule('x.size()', r'\b([\w.>-]+)\.size\(\)', r'VEC_SIZE(\1)'),
    X.Rule('auto in for-init', r'for\s*\(\s*auto\s+(\w+)\s*=', r'for (__auto_type \1 ='),
    auto_ref_locals,
    range_loops,
    X.split_auto_declarators,
] + X.COMMON_RULES


def grab(name, rx):
    ex = X.find_function(REL, rx)
    X.apply_rules(ex, RULES)
    b = ex.body
    if name == 'augment_classes' and dict(ex.rules_fired).get('range-for over vector / deque / set -> index loop', 0) < 8:
        raise X.ExtractionBroken('augment_classes: fewer range-for loops than expected')
    left = re.sub(r'__auto_type|__typeof__', '', b)
    if re.search(r'\bauto\b|std::|Policy::|YV_ELEM|decltype', left):
        raise X.ExtractionBroken('%s: untranslated C++ left: %s' % (name, re.findall(r'[^\n]*(?:\bauto\b|std::|Policy::|YV_ELEM|decltype)[^\n]*', left)[:3]))
    ex.body = b
    return ex


def registration_program(n, direct, recs):
    """Real registry presenting the graph through the given records (class_declaration<Class, Listed...> objects in record
    order); one uni-method per class with one definition; every applicable call is made and compared."""
    anc = closure(n, direct)
    order = sorted(range(n), key=lambda c: sum(anc[c]))
    L = ['#include <yorel/yomm2/keywords.hpp>', '#include <iostream>', 'using namespace yorel::yomm2;']
    for c in order:
        bs = [b for b in range(n) if direct[c][b]]
        L.append('struct C%d%s { virtual ~C%d() {} };' % (c, (' : ' + ', '.join('virtual C%d' % b for b in bs)) if bs else '', c))
    for k, (c, bs) in enumerate(recs):
        L.append('class_declaration<%s> reg%d;' % (', '.join(['C%d' % c] + ['C%d' % b for b in bs]), k))
    for c in range(n):
        L.append('declare_method(int, m%d, (virtual_<C%d&>));' % (c, c))
        L.append('define_method(int, m%d, (C%d&)) { return %d; }' % (c, c, 100 + c))
    L.append('int main() { update(); int bad = 0;')
    for c in range(n):
        L.append('  { C%d o;' % c)
        for p in range(n):
            if p == c or anc[c][p]:
                L.append('    { int r = m%d(o); if (r != %d) { std::cout << "m%d(C%d object) returned " << r << ": another method\'s cell\\n"; ++bad; } }' % (p, 100 + p, p, c))
        L.append('  }')
    L.append('  if (bad) std::cout << "REPRODUCED on real code\\n"; else std::cout << "real library dispatches this registration correctly\\n"; return 0; }')
    return '\n'.join(L) + '\n'


def replay(job, res, ob):
    if not getattr(job, 'graph', None):
        return {'reproduced': None, 'detail': 'no replay for this configuration', 'input': None}
    n, direct, recs = job.graph
    return R.run_generated_program('augment_replay', registration_program(n, direct, recs),
                                   {'classes': n, 'direct_bases': [(d, b) for d in range(n) for b in range(n) if direct[d][b]],
                                    'records (class, listed bases)': recs})


def closure(n, direct):
    anc = [row[:] for row in direct]
    for k in range(n):
        for i in range(n):
            for j in range(n):
                if anc[i][k] and anc[k][j]:
                    anc[i][j] = 1
    return anc


def presentations(n, direct, anc):
    """record lists [(class, [base class indexes...])] for several ways of presenting the same graph"""
    order = list(range(n))
    out = {}
    out['complete'] = [(c, [c] + [b for b in range(n) if anc[c][b]]) for c in order]                 # what register_classes produces
    out['direct-only'] = [(c, [c] + [b for b in range(n) if direct[c][b]]) for c in order]
    out['direct-no-self'] = [(c, [b for b in range(n) if direct[c][b]] or [c]) for c in order]
    out['duplicates-reversed'] = [(c, [b for b in range(n) if anc[c][b]] + [c, c] + [b for b in range(n) if direct[c][b]]) for c in reversed(order)]
    # direct bases plus the root ancestors (a superset of the direct bases within the transitive bases)
    out['direct-plus-roots'] = [(c, [c] + [b for b in range(n) if direct[c][b] or (anc[c][b] and not any(anc[b]))]) for c in order]
    split = []
    for c in order:
        bs = [b for b in range(n) if direct[c][b]]
        if not bs:
            split.append((c, [c]))
        for b in bs:
            split.append((c, [c, b]))
    out['one-record-per-base'] = split
    # two ids per class under a many-to-one type_index projection (entries >= 100: the second id of class e - 100); the second record lists both of its own ids
    out['two-ids-per-class'] = [r for c in order for r in ((c, [c] + [b for b in range(n) if direct[c][b]]),
                                                           (100 + c, [100 + c, c] + [100 + b for b in range(n) if direct[c][b]]))]
    return out


def tid(e):
    return (e - 100) + 17 if e >= 100 else e + 1


def jobs(tier):
    exa = grab('augment_classes', r'template<class Policy>\s*void\s+compiler<Policy>::augment_classes\(\)')
    exc = grab('calculate_covariant_classes', r'template<class Policy>\s*void\s+compiler<Policy>::calculate_covariant_classes\(class_&\s*cls\)')
    c = TEXT.replace('@AUGMENT@', exa.body).replace('@COVARIANT@', exc.body)
    out = []
    dags = enumerate_dags(4)
    if tier == 'thorough':
        dags = dags + [t for t in enumerate_dags(5, 60) if t[0] == 5]
    rich = set()
    for (n, bits, label) in dags:
        direct = [[(bits >> (d * n + b)) & 1 for b in range(n)] for d in range(n)]
        anc = closure(n, direct)
        indirect = any(anc[d][b] and not direct[d][b] for d in range(n) for b in range(n))
        mi = any(sum(direct[d]) >= 2 for d in range(n))
        if n <= 3 or (indirect and mi):
            rich.add(label)
    # quick: every presentation for the graphs up to 3 classes and the 4-class graphs with multiple AND indirect inheritance;
    # the incomplete-list presentation for every other 4-class graph.  thorough: everything, plus 60 random 5-class graphs.
    QUICK_REST = ('direct-only',)
    # larger graphs first: the first failing jobs are the ones replayed on the real library, and only lattices (not trees) make a wrong base set observable
    for (n, bits, label) in sorted(dags, key=lambda t: -t[0]):
        direct = [[(bits >> (d * n + b)) & 1 for b in range(n)] for d in range(n)]
        anc = closure(n, direct)
        for pname, recs in presentations(n, direct, anc).items():
            if len(recs) > 12 or any(len(bs) > 6 for _, bs in recs):
                continue
            if tier != 'thorough' and label not in rich and pname not in QUICK_REST:
                continue
            NCJ = max(4, n)
            anc_bits = sum(1 << (d * NCJ + b) for d in range(n) for b in range(n) if anc[d][b])
            dir_bits = sum(1 << (d * NCJ + b) for d in range(n) for b in range(n) if direct[d][b])
            rec_class = [tid(rc) for rc, _ in recs] + [0] * (12 - len(recs))
            rec_len = [len(bs) for _, bs in recs] + [0] * (12 - len(recs))
            rec_bases = [[tid(b) for b in bs] + [0] * (6 - len(bs)) for _, bs in recs] + [[0] * 6] * (12 - len(recs))
            defs = ['NC=%d' % NCJ, 'CFG_N=%d' % n, 'CFG_NREC=%d' % len(recs), 'CFG_ANC=%dull' % anc_bits, 'CFG_DIR=%dull' % dir_bits, 'CFG_UNKNOWN=0',
                    'CFG_REC_TYPE={%s}' % ','.join(map(str, rec_class)), 'CFG_IDS=%d' % (2 if pname == 'two-ids-per-class' else 1), 'CFG_REC_LEN={%s}' % ','.join(map(str, rec_len)),
                    'CFG_REC_BASES={%s}' % ','.join('{' + ','.join(map(str, r)) + '}' for r in rec_bases)]
            j = Job(unit='augment', config='%s-%s' % (label, pname), c_text=c, entry='h_augment', kind='bounded', unwind=70, object_bits=10, defines=defs, cbmc_extra=('--unwindset', 'calculate_covariant_classes:6'),
                    bound='augment_classes + calculate_covariant_classes: one concrete inheritance graph (every transitively reduced labeled DAG over <= 4 classes; thorough: + 60 random 5-class DAGs) '
                          'x one concrete presentation (quick: all six for <= 3 classes and for the 4-class DAGs with multiple and indirect inheritance, direct-only for the others) '
                          '(complete lists, direct bases only, direct bases plus root ancestors, without the class itself, duplicates in reversed record order, one record per base, two ids per class under a many-to-one type_index)',
                    min_obligations=10, min_cover=1,
                    functions=['%s compiler<Policy>::augment_classes sha256:%s' % (exa.where(), exa.sha()),
                               '%s compiler<Policy>::calculate_covariant_classes sha256:%s' % (exc.where(), exc.sha())],
                    trusted=['std::unordered_map<type_index, class_*> as an array indexed by small integer keys; std::deque::emplace_back as an arena that never moves elements',
                             'std::unordered_set<class_*> as a duplicate-free list; std::vector<class_*> push_back / swap / size',
                             'std::sort with the weight comparator as insertion sort (one of the permutations std::sort may produce)',
                             'Policy::type_index as id & 15 (identity on the ids used; id + 16 is a second id of the same class)'],
                    assumptions=['every direct-base relationship appears in at least one record and every record lists only bases of its class (or the class itself): the premise of C08',
                                 'class ids are small integers'],
                    extracted=[exa, exc], props=['C08', 'C04', 'C10'] if pname == 'two-ids-per-class' else ['C08', 'C04'], timeout=300, replay=replay)
            j.graph = (n, direct, recs) if pname != 'two-ids-per-class' else None
            j.no_cross = True      # concrete run: the formula is decided by simplification, a second SAT back end adds nothing
            out.append(j)
    # update-time diagnosis of an unregistered base (C15)
    defs = ['CFG_N=2', 'CFG_NREC=2', 'CFG_ANC=%dull' % (1 << (1 * 4 + 0)), 'CFG_DIR=%dull' % (1 << (1 * 4 + 0)), 'CFG_UNKNOWN=7',
            'CFG_REC_TYPE={1,2,0,0,0,0,0,0,0,0,0,0}', 'CFG_IDS=1', 'CFG_REC_LEN={1,3,0,0,0,0,0,0,0,0,0,0}',
            'CFG_REC_BASES={{1,0,0,0,0,0},{2,1,7,0,0,0}' + ',{0,0,0,0,0,0}' * 10 + '}']
    out.append(Job(unit='augment', config='unregistered-base', c_text=c, entry='h_augment', kind='bounded', unwind=70, object_bits=10, defines=defs, cbmc_extra=('--unwindset', 'calculate_covariant_classes:6'),
                   bound='augment_classes on a registry whose second class lists a base id (7) that no record registers',
                   min_obligations=5, min_cover=0,   # not vacuous: if the abort path is not taken the harness assertion after the call fails
                  
                   functions=['%s compiler<Policy>::augment_classes sha256:%s' % (exa.where(), exa.sha())],
                   trusted=['as above'], extracted=[exa], props=['C15', 'C08'], timeout=300))
    return out
