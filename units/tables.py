"""compiler<Policy>::build_dispatch_tables, build_dispatch_table, best, is_more_specific, is_base and
generic_compiler::accumulate (compiler.hpp) run TOGETHER on concrete registries - bounded.

This is the invariant I_table the call-path proofs assume ("the cell the v-table entries of the argument classes
select is the definition C01 asks for"), checked against an oracle written from the property statements:

  C01  for every tuple of classes acceptable to a method: the applicable definitions are those whose class at every
       position is the argument class or one of its bases; the cell holds the applicable definition that is more specific
       than every other applicable one (nowhere a proper base, somewhere a proper derived class);
  C02  no applicable definition -> the method's not-implemented entry; some but no most specific one -> its ambiguous entry;
  C03  next of D = the same selection among the definitions strictly more general than D;
  C17  report flags (per method and accumulated) and the cell count;
  C04  the cell index computed from the v-table entries and the strides lies inside the table.

One job = one concrete inheritance graph x a batch of concrete (method, definitions) configurations; the classes'
abstract flags are a sampled assignment per configuration.  The lattice data (covariant sets) and the slots are what units/augment and units/slots
establish.
"""
import itertools
import random
import re

from engine import extract as X
from engine.core import Job
from engine import replay as R
from units import best as best_unit
from units import specificity as spec_unit
from units.augment import auto_ref_locals, closure

REL = 'include/yorel/yomm2/detail/compiler.hpp'

TEXT = r'''
#include "yv.h"
#undef COV
#define NCLS 4
#define NSPEC 4
#define MAXAR 3
#define NMETH 1
#define NSLOT 4
#define NCELL 80
typedef struct cclass cclass;
typedef struct { cclass *data[NCLS]; size_t n; } vec_classp;
typedef struct { size_t method_index, vp_index, group_index; } vtbl_entry;
struct cclass { _Bool is_abstract; vec_classp covariant_classes; vtbl_entry vtbl[NSLOT]; size_t first_slot; };
typedef struct definition_info { void **next; void *pf; } definition_info;
typedef struct method_info { void *ambiguous, *not_implemented; } method_info;
typedef struct cdefinition { const definition_info *info; vec_classp vp; uintptr_t pf; size_t method_index, spec_index; } cdefinition;
#define definition cdefinition
typedef struct { const cdefinition *data[NSPEC + 1]; size_t n; } vec_defp;
typedef struct { const cdefinition *data[NCELL]; size_t n; } vec_cells;
typedef struct { cdefinition data[NSPEC]; size_t n; } vec_def;
typedef struct { size_t data[MAXAR]; size_t n; } vec_size;
typedef struct update_method_report { size_t cells, concrete_cells, not_implemented, concrete_not_implemented, ambiguous, concrete_ambiguous; } update_method_report;
typedef update_method_report update_report;
typedef struct cmethod { method_info *info; vec_classp vp; vec_def specs; vec_size slots, strides; vec_cells dispatch_table;
                         cdefinition not_implemented, ambiguous; update_method_report report; } cmethod;
#define METHOD_ARITY(m) ((m).vp.n)
typedef struct { cmethod data[NMETH]; size_t n; } vec_method;
vec_method methods; update_report report;

/* boost::dynamic_bitset<> of at most 64 bits */
typedef struct { unsigned long long w; size_t n; } bitvec;
static bitvec bv_make(size_t n) { bitvec b; __CPROVER_assert(n <= 64, "harness: bitset width"); b.w = 0; b.n = n; return b; }
static void bv_set(bitvec *b, size_t i) { __CPROVER_assert(i < b->n, "dynamic_bitset: operator[] inside the set"); b->w |= 1ull << i; }
static _Bool bv_test(bitvec b, size_t i) { __CPROVER_assert(i < b.n, "dynamic_bitset: operator[] inside the set"); return (b.w >> i) & 1; }
static bitvec bv_not(bitvec b) { bitvec r; r.n = b.n; r.w = b.n == 64 ? ~b.w : (~b.w & ((1ull << b.n) - 1)); return r; }
static bitvec bv_and(bitvec a, bitvec b) { bitvec r; __CPROVER_assert(a.n == b.n, "dynamic_bitset: operator& on sets of one size"); r.n = a.n; r.w = a.w & b.w; return r; }
/* std::map<bitvec, group>: entries kept sorted by key (dynamic_bitset::operator< on sets of one size = numeric order) */
typedef struct { vec_classp classes; _Bool has_concrete_classes; } cgroup_t;
typedef struct { bitvec key; cgroup_t val; } gm_entry;
typedef struct { gm_entry data[NCLS]; size_t n; } group_map;
typedef struct { group_map data[MAXAR]; size_t n; } vec_group_map;
static cgroup_t *gm_at(group_map *m, bitvec key)
{
    size_t pos = 0;
    while (pos < m->n && m->data[pos].key.w < key.w) ++pos;
    if (pos < m->n && m->data[pos].key.w == key.w) return &m->data[pos].val;
    __CPROVER_assert(m->n < NCLS, "harness: groups per dimension"); __CPROVER_assume(m->n < NCLS);
    for (size_t j = m->n; j > pos; --j) m->data[j] = m->data[j - 1];
    ++m->n;
    m->data[pos].key = key; m->data[pos].val.classes.n = 0; m->data[pos].val.has_concrete_classes = 0;
    return &m->data[pos].val;
}
static size_t gm_count_concrete(const group_map *m) { size_t c = 0; for (size_t i = 0; i < m->n; ++i) if (m->data[i].val.has_concrete_classes) ++c; return c; }
static _Bool set_contains(const vec_classp *s, const cclass *c) { for (size_t i = 0; i < s->n; ++i) if (s->data[i] == c) return 1; return 0; }
#define COV(owner, x) set_contains(&(owner)->covariant_classes, (x))
static void cp_push(vec_classp *v, cclass *c) { __CPROVER_assert(v->n < NCLS, "harness: class list capacity"); __CPROVER_assume(v->n < NCLS); v->data[v->n++] = c; }
static void sz_push(vec_size *v, size_t x) { __CPROVER_assert(v->n < MAXAR, "harness: strides capacity"); __CPROVER_assume(v->n < MAXAR); v->data[v->n++] = x; }
static void cells_push(vec_cells *v, const cdefinition *x) { __CPROVER_assert(v->n < NCELL, "harness: dispatch table capacity"); __CPROVER_assume(v->n < NCELL); v->data[v->n++] = x; }
static const cdefinition **vec_defp_erase(vec_defp *v, const cdefinition **pos)
{
    size_t k = (size_t)(pos - &v->data[0]);
    __CPROVER_assert(k < v->n, "erase: iterator is dereferenceable");
    for (size_t j = k; j + 1 < v->n; ++j) v->data[j] = v->data[j + 1];
    --v->n;
    return &v->data[0] + k;
}
static void vec_defp_push_back(vec_defp *v, const cdefinition *x) { __CPROVER_assert(v->n < NSPEC + 1, "harness: definition list capacity"); __CPROVER_assume(v->n < NSPEC + 1); v->data[v->n++] = x; }
#define YV_AT(v, it) (*(it))
#define YV_FRONT(v) ((v).data[0])

bool is_more_specific(const definition *a, const definition *b)
{
@IMS@
}
bool is_base(const definition *a, const definition *b)
{
@ISB@
}
vec_defp best(vec_defp *@BESTP@_p)
{
#define @BESTP@ (*@BESTP@_p)
@BEST@
#undef @BESTP@
}
void accumulate(const update_method_report *partial_p, update_report *total_p)
{
#define partial (*partial_p)
#define total (*total_p)
@ACC@
#undef partial
#undef total
}
void build_dispatch_table(cmethod *m_p, size_t dim, const group_map *group_iter, const bitvec *candidates_p, _Bool concrete)
{
#define m (*m_p)
#define candidates (*candidates_p)
@BDT@
#undef m
#undef candidates
}
void build_dispatch_tables(void)
{
@BDTS@
}

/* ------------------------------------------------------------------ harness */
cclass g_cls[NCLS]; method_info g_minfo; definition_info g_dinfo[NSPEC]; void *g_next[NSPEC]; char g_fn[NSPEC + 2];
#define ANCB(bits, d, b) (((bits) >> ((d) * NCLS + (b))) & 1ull)
#define NTUP 64
/* want[t]: what the property asks for tuple number t (digits base CFG_N, position 0 least significant): 0..nspec-1 that definition,
   nspec the ambiguity entry, nspec + 1 the not-implemented entry, 255 tuple not acceptable to the method.  next_want[s] likewise.
   flags: bit 0 some tuple not implemented, 1 some ambiguous, 2 / 3 the same among tuples of non-abstract classes.
   All computed by the generator (units/tables.py: oracle()) from the statements of C01 / C02 / C03 / C17. */
typedef struct { unsigned char arity, vp[MAXAR], nspec, spec[NSPEC][MAXAR], has_next_mask, abstract_mask, want[NTUP], next_want[NSPEC], flags; } cfg_t;
static const cfg_t cfgs[] = CFG_TABLE;
/* witnesses for the replay */
size_t w_cfg, w_tuple[MAXAR]; const void *w_cell;
static _Bool cov_ix(size_t b, size_t d) { return b == d || ANCB((unsigned long long)CFG_ANC, d, b); }   /* d is b or derives from b */

void h_tables(void)
{
    size_t n = CFG_N;
    for (size_t ci = 0; ci < sizeof(cfgs) / sizeof(cfgs[0]); ++ci) {
        const cfg_t *c = &cfgs[ci];
        _Bool abstract[NCLS];
        for (size_t i = 0; i < NCLS; ++i) abstract[i] = (c->abstract_mask >> i) & 1;
        /* classes: covariant sets as units/augment establishes them, one slot per (method, parameter) as units/slots does */
        for (size_t i = 0; i < NCLS; ++i) {
            g_cls[i].is_abstract = abstract[i]; g_cls[i].covariant_classes.n = 0; g_cls[i].first_slot = 0;
            for (size_t d = 0; d < NCLS; ++d) if (i < n && d < n && cov_ix(i, d)) g_cls[i].covariant_classes.data[g_cls[i].covariant_classes.n++] = &g_cls[d];
            for (size_t s = 0; s < NSLOT; ++s) { g_cls[i].vtbl[s].method_index = 99; g_cls[i].vtbl[s].vp_index = 99; g_cls[i].vtbl[s].group_index = 99; }
        }
        cmethod *M = &methods.data[0];
        methods.n = 1;
        M->info = &g_minfo; g_minfo.ambiguous = &g_fn[NSPEC]; g_minfo.not_implemented = &g_fn[NSPEC + 1];
        M->vp.n = c->arity; M->slots.n = c->arity; M->strides.n = 0; M->dispatch_table.n = 0;
        for (size_t k = 0; k < MAXAR; ++k) if (k < c->arity) { M->vp.data[k] = &g_cls[c->vp[k]]; M->slots.data[k] = k; }
        M->specs.n = c->nspec;
        for (size_t s = 0; s < NSPEC; ++s) {
            if (s >= c->nspec) continue;
            cdefinition *D = &M->specs.data[s];
            D->info = &g_dinfo[s]; g_dinfo[s].pf = &g_fn[s]; g_next[s] = 0;
            g_dinfo[s].next = ((c->has_next_mask >> s) & 1) ? &g_next[s] : 0;
            D->vp.n = c->arity; D->method_index = 0; D->spec_index = s; D->pf = (uintptr_t)&g_fn[s];
            for (size_t k = 0; k < MAXAR; ++k) if (k < c->arity) D->vp.data[k] = &g_cls[c->spec[s][k]];
        }
        M->report.cells = M->report.concrete_cells = M->report.not_implemented = M->report.concrete_not_implemented = M->report.ambiguous = M->report.concrete_ambiguous = 0;
        report = M->report;
        w_cfg = ci;

        build_dispatch_tables();

        /* ---- comparison with what the properties ask ---- */
        size_t ntuples = 1; for (size_t k = 0; k < c->arity; ++k) ntuples *= n;
        for (size_t t = 0; t < ntuples; ++t) {
            size_t want = c->want[t];
            if (want == 255) continue;
            size_t index = 0, r = t;
            for (size_t k = 0; k < c->arity; ++k) {
                size_t cls = r % n; r /= n; w_tuple[k] = cls;
                const vtbl_entry *e = &g_cls[cls].vtbl[M->slots.data[k] - g_cls[cls].first_slot];
                __CPROVER_assert(e->method_index == 0 && e->vp_index == k, "C04 the v-table cell of an acceptable class is filled for exactly this method and parameter");
                __CPROVER_assert(k == 0 || k - 1 < M->strides.n, "C04 a stride exists for every virtual parameter after the first");
                index += k == 0 ? e->group_index : e->group_index * M->strides.data[k - 1];
            }
            __CPROVER_assert(index < M->dispatch_table.n, "C04 the cell selected by the v-table entries and the strides lies inside the dispatch table");
            __CPROVER_assume(index < M->dispatch_table.n);
            const cdefinition *cell = M->dispatch_table.data[index]; w_cell = cell;
            if (want < c->nspec) __CPROVER_assert(cell == &M->specs.data[want], "C01 the cell holds the applicable definition that is more specific than every other applicable one");
            else if (want == c->nspec) __CPROVER_assert(cell == &M->ambiguous, "C02 applicable definitions but no most specific one: the cell is the method's ambiguous entry");
            else __CPROVER_assert(cell == &M->not_implemented, "C02 no applicable definition: the cell is the method's not-implemented entry");
        }
        _Bool some_ni = c->flags & 1, some_amb = (c->flags >> 1) & 1, some_cni = (c->flags >> 2) & 1, some_camb = (c->flags >> 3) & 1;
        __CPROVER_assert((M->report.not_implemented != 0) == some_ni && (report.not_implemented != 0) == some_ni, "C17 missing definitions are flagged iff some acceptable tuple has no applicable definition");
        __CPROVER_assert((M->report.ambiguous != 0) == some_amb && (report.ambiguous != 0) == some_amb, "C17 ambiguities are flagged iff some acceptable tuple has applicable definitions but no most specific one");
        __CPROVER_assert((M->report.concrete_not_implemented != 0) == some_cni && (report.concrete_not_implemented != 0) == some_cni, "C17 concrete missing definitions are flagged iff such a tuple is made of non-abstract classes only");
        __CPROVER_assert((M->report.concrete_ambiguous != 0) == some_camb && (report.concrete_ambiguous != 0) == some_camb, "C17 concrete ambiguities are flagged iff such a tuple is made of non-abstract classes only");
        __CPROVER_assert(c->arity == 1 ? report.cells == 0 : (report.cells == M->dispatch_table.n && M->report.cells == M->dispatch_table.n), "C17 the cell count is the number of multi-method dispatch cells actually built");
        for (size_t s = 0; s < NSPEC; ++s) {
            if (s >= c->nspec) continue;
            size_t want = c->next_want[s];
            void *expect = want < c->nspec ? (void *)&g_fn[want] : want == c->nspec ? g_minfo.ambiguous : g_minfo.not_implemented;
            if ((c->has_next_mask >> s) & 1) __CPROVER_assert(g_next[s] == expect, "C03 next is the selection among the strictly more general definitions (or the matching error)");
            else __CPROVER_assert(g_next[s] == 0, "a definition without a next variable is left alone");
        }
    }
    YV_COVER(1, "every configuration of the batch ran to the end");
}
'''


def structured_binding_loops(ex, body):
    """`for ([const] auto& [k, v] : M) {` over a std::map -> index loop over the sorted entry array."""
    rx = re.compile(r'for\s*\(\s*(?:const\s+)?auto&\s*\[\s*(\w+)\s*,\s*(\w+)\s*\]\s*:\s*([^){]+?)\s*\)\s*\{')
    n = 0
    pos = 0
    while True:
        mm = rx.search(body, pos)
        if not mm:
            break
        ob = mm.end() - 1
        cb = X.match_close(body, ob)
        k, v, cont = mm.group(1), mm.group(2), mm.group(3)
        ix = 'yv_i_%s%d' % (v, n)
        head = ('for (size_t %s = 0; %s < (%s).n; ++%s) {\nconst bitvec %s = (%s).data[%s].key; (void)%s;\n__typeof__((%s).data[0].val) *const %s_p = &(%s).data[%s].val;\n#define %s (*%s_p)\n'
                % (ix, ix, cont, ix, k, cont, ix, k, cont, v, cont, ix, v, v))
        body = body[:mm.start()] + head + body[ob + 1:cb] + '}\n#undef %s\n' % v + body[cb + 1:]
        pos = mm.start() + len(head)
        n += 1
    ex.rules_fired.append(('structured-binding range-for over std::map -> index loop', n))
    return body


def range_loops(ex, body):
    rx = re.compile(r'for\s*\(\s*(const\s+)?auto(&?)\s+(\w+)\s*:\s*([\w.>-]+)\s*\)\s*\{')
    n = 0
    pos = 0
    while True:
        mm = rx.search(body, pos)
        if not mm:
            break
        ob = mm.end() - 1
        cb = X.match_close(body, ob)
        const, ref, x, v = mm.group(1) or '', mm.group(2), mm.group(3), mm.group(4)
        if ref:
            head = ('for (size_t yv_i_%s = 0; yv_i_%s < VEC_SIZE(%s); ++yv_i_%s) {\n%s__typeof__(%s.data[0]) *const %s_p = &%s.data[yv_i_%s];\n#define %s (*%s_p)\n'
                    % (x, x, v, x, const, v, x, v, x, x, x))
            tail = '}\n#undef %s\n' % x
        else:
            head = 'for (size_t yv_i_%s = 0; yv_i_%s < VEC_SIZE(%s); ++yv_i_%s) {\n__typeof__(%s.data[0]) %s = %s.data[yv_i_%s];\n' % (x, x, v, x, v, x, v, x)
            tail = '}\n'
        body = body[:mm.start()] + head + body[ob + 1:cb] + tail + body[cb + 1:]
        pos = mm.start() + len(head)
        n += 1
    ex.rules_fired.append(('range-for over vector / set -> index loop', n))
    return body


NOT_TRACE = X.eval_if_constexpr(lambda c: False if c.strip() == 'trace_enabled' else None)

COMMON_TABLE_RULES = [
    X.Rule('x.arity()', r'\b(\w+)\.arity\(\)', r'METHOD_ARITY(\1)'),
    X.Rule('spec.vp[k]', r'\.vp\[', '.vp.data['),
    X.Rule('m.slots[k]', r'\.slots\[', '.slots.data['),
    X.Rule('cov-member', r'([\w.\[\]>-]+)->covariant_classes\.find\(\s*(\w+)\s*\)\s*!=\s*\1->covariant_classes\.end\(\)', r'COV(\1, \2)'),
    X.Rule('m.dispatch_table.push_back', r'\bm\.dispatch_table\.push_back\(', 'cells_push(&m.dispatch_table, '),
    X.Rule('build_dispatch_table(m, ..)', r'\bbuild_dispatch_table\(\s*m\s*,\s*([^,]+),\s*([^,]+),\s*(\w+)\s*,', r'build_dispatch_table(&m, \1, \2, &\3,', 1, 1),
]

BDTS_RULES = [
    X.drop_trace, NOT_TRACE,
    X.Rule('using namespace', r'\busing\s+namespace\s+[\w:]+\s*;', ''),
    X.Rule('std::vector<group_map> groups; resize', r'std::vector<group_map>\s+groups;\s*groups\.resize\(dims\);',
           'vec_group_map groups; groups.n = dims; for (size_t yv_g = 0; yv_g < MAXAR; ++yv_g) groups.data[yv_g].n = 0;', 1, 1),
    X.Rule('groups.end()', r'\bgroups\.end\(\)', 'VEC_END(groups)', 1, 1),
    X.Rule('groups[k].size()', r'\bgroups\[([^\]]*)\]\.size\(\)', r'VEC_SIZE(groups.data[\1])', 1, 1),
    X.Rule('groups[k]', r'\bgroups\[', 'groups.data['),
    X.Rule('methods[0]', r'\bmethods\[', 'methods.data['),
    X.Rule('bitvec x; x.resize(n)', r'\bbitvec\s+(\w+);\s*\1\.resize\(([^;]+)\);', r'bitvec \1 = bv_make(\2);', 1, 1),
    X.Rule('bitvec x(n)', r'\bbitvec\s+(\w+)\(([^;]+)\);', r'bitvec \1 = bv_make(\2);', 1, 1),
    X.Rule('x = ~x', r'\b(\w+)\s*=\s*~\1;', r'\1 = bv_not(\1);', 1, 1),
    X.Rule('mask[i] = 1', r'\bmask\[(\w+)\]\s*=\s*1;', r'bv_set(&mask, \1);', 1, 1),
    X.Rule('dim_group[mask]', r'\bdim_group\[mask\]', '(*gm_at(&dim_group, mask))', 1, 1),
    X.Rule('group.classes.push_back', r'((?:\(\*gm_at\(&dim_group, mask\)\)|\bgroup))\.classes\.push_back\(', r'cp_push(&\1.classes, ', 1, 1),
    X.Rule('reserve()', r'\b[\w.]+\.reserve\([^;]*\);', ''),
    X.Rule('m.strides.push_back', r'\bm\.strides\.push_back\(', 'sz_push(&m.strides, ', 1, 1),
    X.Rule('std::count_if(has_concrete_classes)',
           r'std::count_if\(\s*(\w+)\.begin\(\),\s*\1\.end\(\),\s*\[\]\(const auto&\s*(\w+)\)\s*\{\s*return\s+\2\.second\.has_concrete_classes;\s*\}\s*\)',
           r'gm_count_concrete(&\1)', 1, 1),
    X.Rule('print(report)', r'\bprint\(m\.report\);', '', 1, 1),
    X.Rule('accumulate(m.report, report)', r'\baccumulate\(m\.report,\s*report\)', 'accumulate(&m.report, &report)', 1, 1),
] + COMMON_TABLE_RULES + [
    X.vector_locals(r'const\s+definition\s*\*', 'vec_defp', 2),
    X.Rule('std::transform(address-of) -> loop',
           r'std::transform\(\s*([\w.]+)\.begin\(\),\s*\1\.end\(\),\s*std::back_inserter\((\w+)\),\s*'
           r'\[\]\(const definition&\s*(\w+)\)\s*\{\s*return\s+&\3;\s*\}\s*\);',
           r'for (size_t yv_t = 0; yv_t < VEC_SIZE(\1); ++yv_t) vec_defp_push_back(&\2, &\1.data[yv_t]);', 1, 1),
    X.Rule('std::copy_if(predicate) -> loop',
           r'std::copy_if\(\s*(\w+)\.begin\(\),\s*\1\.end\(\),\s*std::back_inserter\((\w+)\),\s*'
           r'\[&(\w+)\]\(const definition\*\s*(\w+)\)\s*\{\s*return\s+([^;]+);\s*\}\s*\);',
           r'for (size_t yv_c = 0; yv_c < VEC_SIZE(\1); ++yv_c) { const cdefinition *\4 = \1.data[yv_c]; '
           r'if (\5) vec_defp_push_back(&\2, \4); }', 1, 1),
    X.Rule('auto x = best(v)', r'\bauto\s+(\w+)\s*=\s*best\((\w+)\);', r'vec_defp \1 = best(&\2);', 1, 1),
    structured_binding_loops,
    auto_ref_locals,
    range_loops,
    X.Rule('x.size()', r'\b([\w.>-]+)\.size\(\)', r'VEC_SIZE(\1)'),
    X.Rule('x.front()', r'\b(\w+)\.front\(\)', r'(\1.data[0])'),
    X.Rule('x.empty()', r'\b(\w+)\.empty\(\)', r'(VEC_SIZE(\1) == 0)'),
    X.split_auto_declarators,
] + X.COMMON_RULES

BDT_RULES = [
    X.drop_trace, NOT_TRACE,
    X.Rule('using namespace', r'\busing\s+namespace\s+[\w:]+\s*;', ''),
    X.Rule('auto mask = candidates & group_mask', r'\bauto\s+(\w+)\s*=\s*(\w+)\s*&\s*(\w+);', r'bitvec \1 = bv_and(\2, \3);', 1, 1),
    X.Rule('mask[i]', r'\bmask\[(\w+)\]', r'bv_test(mask, \1)', 1, 1),
    X.Rule('bitset.none()', r'\b(\w+)\.none\(\)', r'(\1.w == 0)'),
    X.Rule('dispatch_table.insert(end, n, v)', r'\bm\.dispatch_table\.insert\(\s*m\.dispatch_table\.end\(\),\s*([^,]+),\s*([^;]+)\);',
           r'for (size_t yv_k = 0, yv_n = (\1); yv_k < yv_n; ++yv_k) cells_push(&m.dispatch_table, \2);'),
    X.Rule('std::count_if(has_concrete_classes)',
           r'std::count_if\(\s*(\w+)\.begin\(\),\s*\1\.end\(\),\s*\[\]\(const auto&\s*(\w+)\)\s*\{\s*return\s+\2\.second\.has_concrete_classes;\s*\}\s*\)',
           r'gm_count_concrete(&\1)'),
] + COMMON_TABLE_RULES + [
    X.vector_locals(r'const\s+definition\s*\*', 'vec_defp', 1),
    X.Rule('auto x = best(v)', r'\bauto\s+(\w+)\s*=\s*best\((\w+)\);', r'vec_defp \1 = best(&\2);', 1, 1),
    X.Rule('result[0]', r'\bspecs\[0\]', r'specs.data[0]', 1, 1),
    structured_binding_loops,
    auto_ref_locals,
    range_loops,
    X.Rule('vec.push_back', r'\b(\w+)\.push_back\(', r'vec_defp_push_back(&\1, '),
    X.Rule('x.size()', r'\b([\w.>-]+)\.size\(\)', r'VEC_SIZE(\1)'),
    X.Rule('x.empty()', r'\b(\w+)\.empty\(\)', r'(VEC_SIZE(\1) == 0)'),
    X.split_auto_declarators,
] + X.COMMON_RULES


def check_clean(name, body):
    left = re.sub(r'__auto_type|__typeof__', '', body)
    bad = re.findall(r'[^\n]*(?:\bauto\b|std::|\.begin\(|\.end\(|\.find\(|\[&|\]\()[^\n]*', left)
    if bad:
        raise X.ExtractionBroken('%s: untranslated C++ left: %s' % (name, bad[:3]))


def extract_all():
    exs = {}
    ex = X.find_function(REL, r'template<class Policy>\s*void\s+compiler<Policy>::build_dispatch_tables\s*\(\s*\)')
    X.apply_rules(ex, BDTS_RULES)
    check_clean('build_dispatch_tables', ex.body)
    if dict(ex.rules_fired).get('structured-binding range-for over std::map -> index loop') != 1:
        raise X.ExtractionBroken('build_dispatch_tables: expected one loop over the groups of a dimension')
    exs['BDTS'] = ex
    ex = X.find_function(REL, r'template<class Policy>\s*void\s+compiler<Policy>::build_dispatch_table\s*\([^{;]*\)')
    h = X.norm_ws(ex.header)
    if not re.search(r'build_dispatch_table\(\s*method& m, std::size_t dim, std::vector<group_map>::const_iterator group_iter, const bitvec& candidates, bool concrete\)$', h):
        raise X.ExtractionBroken('unexpected signature of build_dispatch_table: ' + h)
    X.apply_rules(ex, BDT_RULES)
    check_clean('build_dispatch_table', ex.body)
    exs['BDT'] = ex
    for key, fn in (('IMS', 'is_more_specific'), ('ISB', 'is_base')):
        ex = X.find_function(REL, r'template<class Policy>\s*bool\s+compiler<Policy>::' + fn + r'\s*\([^)]*\)')
        spec_unit.c_header(ex, fn)
        X.apply_rules(ex, spec_unit.BODY_RULES)
        check_clean(fn, ex.body)
        exs[key] = ex
    ex = X.find_function(REL, r'template<class Policy>\s*std::vector<const generic_compiler::definition\*>\s*compiler<Policy>::best\s*\([^)]*\)')
    h = X.norm_ws(ex.header)
    mm = re.search(r'best\s*\(\s*std::vector<const definition\*>&\s*(\w+)\s*\)$', h)
    if not mm:
        raise X.ExtractionBroken('unexpected signature of best: ' + h)
    X.apply_rules(ex, best_unit.BODY_RULES)
    check_clean('best', ex.body)
    exs['BEST'] = ex
    bestp = mm.group(1)
    ex = X.find_function(REL, r'inline\s+void\s+generic_compiler::accumulate\s*\([^)]*\)')
    h = X.norm_ws(ex.header)
    if not re.fullmatch(r'inline void generic_compiler::accumulate\( const update_method_report& partial, update_report& total\)', h):
        raise X.ExtractionBroken('unexpected signature of accumulate: ' + h)
    X.apply_rules(ex, X.COMMON_RULES)
    exs['ACC'] = ex
    c = TEXT.replace('@BESTP@', bestp)
    for k, e in exs.items():
        c = c.replace('@%s@' % k, e.body)
    return exs, c


# ------------------------------------------------------------------ configurations
def topo_dags(nmax):
    """transitively reduced DAGs whose edges go from a higher to a lower index (bases first): one labeling per shape is enough here,
    the order of classes does not enter build_dispatch_tables (the order of definitions does)."""
    out = []
    for n in range(1, nmax + 1):
        pairs = [(d, b) for d in range(n) for b in range(d)]
        for mask in range(1 << len(pairs)):
            direct = [[0] * n for _ in range(n)]
            for k, (d, b) in enumerate(pairs):
                if mask >> k & 1:
                    direct[d][b] = 1
            anc = closure(n, direct)
            if any(direct[d][b] and any(k != b and direct[d][k] and anc[k][b] for k in range(n)) for d in range(n) for b in range(n)):
                continue
            out.append((n, direct, anc, 'n%d-m%x' % (n, mask)))
    return out


def configs_for(n, anc, tier, rnd):
    """(arity, vp, [definition tuples], has_next_mask) configurations for one graph"""
    cov = [[d for d in range(n) if d == b or anc[d][b]] for b in range(n)]
    out = []
    for arity in (1, 2, 3):
        vps = list(itertools.product(range(n), repeat=arity))
        if arity == 3:
            vps = [vp for vp in vps if all(len(cov[b]) >= 2 for b in vp)][:2 if tier != 'thorough' else 6]
        for vp in vps:
            tuples = list(itertools.product(*[cov[b] for b in vp]))
            sets = [()]
            for k in (1, 2, 3, 4):
                sets += list(itertools.combinations(tuples, k))
            cap = {1: 16, 2: 10, 3: 5}[arity] * (3 if tier == 'thorough' else 1)
            if len(sets) > cap:
                # keep the small ones, sample the rest
                small = [s for s in sets if len(s) <= 1]
                rest = [s for s in sets if len(s) > 1]
                rnd.shuffle(rest)
                sets = small[:cap // 3] + rest[:cap - min(len(small), cap // 3)]
            for s in sets:
                s = list(s)
                if len(s) >= 2 and rnd.random() < 0.5:
                    rnd.shuffle(s)              # the order of definitions follows static initialisation: any
                out.append((arity, vp, s, rnd.randrange(1 << max(1, len(s))) | 1, 0 if rnd.random() < 0.4 else rnd.randrange(1 << n)))
    return out


def oracle(n, anc, cfg):
    """What the properties ask for one configuration (C01 / C02 / C03 / C17), straight from their statements."""
    arity, vp, specs, _, absmask = cfg
    ns = len(specs)

    def cov_ix(b, d):          # d is b or derives from b
        return b == d or anc[d][b]

    def more_specific(x, y):   # nowhere a proper base of the other's class, somewhere a proper derived class
        if any(x[k] != y[k] and cov_ix(x[k], y[k]) for k in range(arity)):
            return False
        return any(x[k] != y[k] and cov_ix(y[k], x[k]) for k in range(arity))

    def select(cands):
        if not cands:
            return ns + 1
        win = [d for d in cands if all(e == d or more_specific(specs[d], specs[e]) for e in cands)]
        return win[0] if win else ns
    want = [255] * 64
    flags = 0
    for t in range(n ** arity):
        tup, r = [], t
        for k in range(arity):
            tup.append(r % n)
            r //= n
        if not all(cov_ix(vp[k], tup[k]) for k in range(arity)):
            continue
        app = [d for d in range(ns) if all(cov_ix(specs[d][k], tup[k]) for k in range(arity))]
        w = select(app)
        want[t] = w
        concrete = not any((absmask >> c) & 1 for c in tup)
        if w == ns + 1:
            flags |= 1 | (4 if concrete else 0)
        elif w == ns:
            flags |= 2 | (8 if concrete else 0)
    nxt = []
    for s_ in range(ns):
        general = [e for e in range(ns) if e != s_ and all(cov_ix(specs[e][k], specs[s_][k]) for k in range(arity)) and tuple(specs[e]) != tuple(specs[s_])]
        nxt.append(select(general))
    return want, nxt + [0] * (4 - ns), flags


def cfg_table(cfgs, n=None, anc=None):
    rows = []
    for arity, vp, specs, nextmask, absmask in cfgs:
        vpx = list(vp) + [0] * (3 - arity)
        sp = [list(t) + [0] * (3 - arity) for t in specs] + [[0, 0, 0]] * (4 - len(specs))
        want, nxt, flags = oracle(n, anc, (arity, vp, specs, nextmask, absmask))
        rows.append('{%d,{%s},%d,{%s},%d,%d,{%s},{%s},%d}' % (arity, ','.join(map(str, vpx)), len(specs),
                                                              ','.join('{' + ','.join(map(str, r)) + '}' for r in sp), nextmask, absmask,
                                                              ','.join(map(str, want)), ','.join(map(str, nxt)), flags))
    return '{' + ','.join(rows) + '}'


def dispatch_program(n, direct, cfg, abstract):
    """Real registry for one configuration: classes (virtual inheritance; abstract ones have a pure virtual function), one
    method, its definitions in order; every acceptable tuple of concrete classes is called and compared with the oracle,
    and the report of update() is compared with the oracle's flags."""
    arity, vp, specs = cfg[0], cfg[1], [tuple(t) for t in cfg[2]]
    absmask = cfg[4] if len(cfg) > 4 else 0
    anc = closure(n, direct)
    want, _, flags = oracle(n, anc, (arity, vp, specs, 0, absmask))
    L = ['#include <yorel/yomm2/keywords.hpp>', '#include <iostream>', '#include <stdexcept>', 'using namespace yorel::yomm2;']
    for c in range(n):
        bs = [b for b in range(n) if direct[c][b]]
        body = 'virtual ~C%d() {}' % c
        if (absmask >> c) & 1:
            body += ' virtual void pure%d() = 0;' % c
        else:
            body += ''.join(' void pure%d() override {}' % a for a in range(n) if anc[c][a] and (absmask >> a) & 1)
        L.append('struct C%d%s { %s };' % (c, (' : ' + ', '.join('virtual C%d' % b for b in bs)) if bs else '', body))
    L.append('register_classes(%s);' % ', '.join('C%d' % c for c in range(n)))
    L.append('declare_method(int, m, (%s));' % ', '.join('virtual_<C%d&>' % b for b in vp))
    for i, t in enumerate(specs):
        L.append('define_method(int, m, (%s)) { return %d; }' % (', '.join('C%d&' % c for c in t), i))
    L.append('struct yv_resolution { int status; };')
    L.append('int main() { auto compiler = update(); auto& rep = compiler.report; int bad = 0;')
    L.append('  default_policy::error = [](const error_type& ev) { if (auto e = std::get_if<resolution_error>(&ev)) { yv_resolution r; r.status = e->status == resolution_error::ambiguous ? -1 : -2; throw r; } };')
    for nm, bit in (('not_implemented', 1), ('ambiguous', 2), ('concrete_not_implemented', 4), ('concrete_ambiguous', 8)):
        L.append('  if ((rep.%s != 0) != %s) { std::cout << "report.%s = " << rep.%s << ", the property asks for %s\\n"; ++bad; }'
                 % (nm, 'true' if flags & bit else 'false', nm, nm, 'non-zero' if flags & bit else 'zero'))
    for c in range(n):
        if not (absmask >> c) & 1:
            L.append('  C%d o%d;' % (c, c))
    ns = len(specs)
    for t in range(n ** arity):
        tup, r = [], t
        for k in range(arity):
            tup.append(r % n)
            r //= n
        if want[t] == 255 or any((absmask >> c) & 1 for c in tup):
            continue
        w = want[t] if want[t] < ns else (-1 if want[t] == ns else -2)
        args = ', '.join('static_cast<C%d&>(o%d)' % (vp[k], tup[k]) for k in range(arity))
        L.append('  { int r; try { r = m(%s); } catch (const yv_resolution& e) { r = e.status; } if (r != %d) { std::cout << "m(%s): got " << r << ", the property asks for %d (-1 ambiguous, -2 not implemented)\\n"; ++bad; } }'
                 % (args, w, ','.join('C%d' % c for c in tup), w))
    L.append('  if (bad) std::cout << "REPRODUCED on real code\\n"; else std::cout << "real library dispatches and reports this registry as the properties ask\\n"; return 0; }')
    return '\n'.join(L) + '\n'


def replay(job, res, ob):
    tr = res.traces.get(ob['name'])
    if not tr:
        return {'reproduced': None, 'detail': 'verifier gave no trace', 'input': None}
    vals = R.last_values(tr)
    ci = R.as_int(vals.get('w_cfg'))
    if ci is None or ci >= len(job.cfgs):
        return {'reproduced': None, 'detail': 'trace does not bind the configuration', 'input': None}
    n, direct = job.graph
    cfg = job.cfgs[ci]
    return R.run_generated_program('tables_replay', dispatch_program(n, direct, cfg, None),
                                   {'classes': n, 'direct_bases': [(d, b) for d in range(n) for b in range(n) if direct[d][b]],
                                    'method virtual parameters': list(cfg[1]), 'definitions in registration order': [list(t) for t in cfg[2]], 'abstract classes (bit mask)': cfg[4]})


def jobs(tier):
    exs, c = extract_all()
    rnd = random.Random(20261004)
    out = []
    graphs = topo_dags(4)
    if tier != 'thorough':
        graphs = [g for g in graphs if g[0] <= 3] + [g for g in graphs if g[0] == 4 and any(sum(r) >= 2 for r in g[1]) and sum(map(sum, g[1])) >= 3]
    for (n, direct, anc, label) in graphs:
        cfgs = configs_for(n, anc, tier, rnd)
        B = 12
        for bi in range(0, len(cfgs), B):
            batch = cfgs[bi:bi + B]
            anc_bits = sum(1 << (d * 4 + b) for d in range(n) for b in range(n) if anc[d][b])
            j = Job(unit='tables', config='%s-batch%d' % (label, bi // B), c_text=c, entry='h_tables', kind='bounded', unwind=90, object_bits=12,
                    defines=['CFG_N=%d' % n, 'CFG_ANC=%dull' % anc_bits, 'CFG_TABLE=' + cfg_table(batch, n, anc)],
                    cbmc_extra=('--unwindset', 'build_dispatch_table:5', '--no-standard-checks'),   # bounds / overflow checks only: CBMC's pointer checks triple the symbolic-execution time of these concrete runs
                    drop_flags=('--pointer-check',),
                    bound='build_dispatch_tables + build_dispatch_table + best + is_more_specific + is_base + accumulate run together on concrete registries: '
                          'every inheritance graph shape over <= 3 classes and the 4-class shapes with multiple inheritance and >= 3 edges (thorough: all), one method of arity 1..3 '
                          'with every choice of parameter classes (arity 3: a sample), definition sets of <= 4 definitions (all small ones, a seeded sample of the others, in sampled orders); '
                          'a sampled assignment of abstract flags per configuration',
                    min_obligations=40, min_cover=1 if bi == 0 else 0,   # every path cut (capacity, index) is preceded by an assertion of the same condition: one reachability run per graph

                    functions=['%s compiler<Policy>::%s sha256:%s' % (e.where(), name, e.sha()) for e, name in (
                        (exs['BDTS'], 'build_dispatch_tables'), (exs['BDT'], 'build_dispatch_table'), (exs['BEST'], 'best'),
                        (exs['IMS'], 'is_more_specific'), (exs['ISB'], 'is_base'), (exs['ACC'], 'accumulate (generic_compiler)'))],
                    trusted=['boost::dynamic_bitset<> as a 64-bit word + size; std::map<bitvec, group> as an array sorted by the numeric value of the key',
                             'std::unordered_set<class_*>::find as membership in a list; std::vector push_back / erase / size / front; std::transform / copy_if / count_if as their defining loops',
                             'structured-binding and range-for loops as index loops'],
                    assumptions=['covariant sets = the class and its descendants (what units/augment checks augment_classes to produce)',
                                 'one v-table slot per (method, parameter), first_slot 0 (units/slots establishes distinct slots)',
                                 'a single method per registry (methods do not interact in build_dispatch_tables except through the accumulated report)'],
                    extracted=list(exs.values()), props=['C01', 'C02', 'C03', 'C06', 'C17', 'C04'], timeout=900, replay=replay)
            j.graph = (n, direct)
            j.no_cross = True      # concrete run: the formula is decided by simplification, a second SAT back end adds nothing
            j.cfgs = batch
            out.append(j)
    return out
