"""generator::write_static_offsets(const method_info&, ostream&) (generator.hpp).

The oracle for the layout of method::slots_strides is its consumer: the
extracted resolve functions (units/resolve.py) read the slot of virtual
parameter k at slots_strides[k] and the stride of parameter k >= 1 at
slots_strides[arity + k - 1] - and install_gv writes "slots, then strides".
Postcondition: the j-th number of the emitted `slots` list is slots_strides[j],
the j-th number of the `strides` list is slots_strides[arity + j].

`os << a << b;` chains are split into emit calls appending to a ghost output
log; only the emitted numbers and the literal that opens the strides list are
observed.  The two loops run over the arity: unwound for arity <= 8 (the
property quantifies over arity 1..4) - labelled bounded.
"""
import re

from engine import extract as X
from engine.core import Job

REL = 'include/yorel/yomm2/generator.hpp'

TEXT = r'''
#include "yv.h"
#define MAXA 8
typedef struct method_info { type_id *vp_begin, *vp_end; size_t *slots_strides_ptr; type_id method_type; } method_info;
#define METHOD_ARITY(m) ((size_t)((m).vp_end - (m).vp_begin))

/* ghost output log */
size_t g_nnum[2]; size_t g_num[2][2 * MAXA]; int g_phase; size_t g_strs;
static int yv_contains(const char *s, const char *w)
{
    for (size_t i = 0; i < 64 && s[i]; ++i) {
        size_t k = 0;
        while (k < 8 && w[k] && s[i + k] == w[k]) ++k;
        if (!w[k]) return 1;
    }
    return 0;
}
static void yv_emit_str(const char *s) { ++g_strs; if (yv_contains(s, "strides")) g_phase = 1; }
static void yv_emit_num(size_t v)
{
    __CPROVER_assert(g_nnum[g_phase] < 2 * MAXA, "output log capacity");
    g_num[g_phase][g_nnum[g_phase]++] = v;
}

void write_static_offsets(const method_info *method_p)
{
#define method (*method_p)
@BODY@
#undef method
}

type_id g_vp[MAXA + 1]; size_t g_ss[2 * MAXA]; size_t w_arity;
void h_write_static_offsets(void)
{
    method_info m;
    size_t arity = nondet_size_t();
    __CPROVER_assume(arity >= 1 && arity <= MAXA);
    w_arity = arity;
    m.vp_begin = g_vp; m.vp_end = g_vp + arity; m.slots_strides_ptr = g_ss;
    for (size_t i = 0; i < 2 * MAXA; ++i) g_ss[i] = nondet_size_t();
    g_nnum[0] = g_nnum[1] = 0; g_phase = 0; g_strs = 0;
    size_t ss0[2 * MAXA]; for (size_t i = 0; i < 2 * MAXA; ++i) ss0[i] = g_ss[i];
    write_static_offsets(&m);
    __CPROVER_assert(g_nnum[0] == arity, "C12 one slot is written per virtual parameter");
    __CPROVER_assert(g_nnum[1] == arity - 1, "C12 one stride is written per virtual parameter after the first");
    for (size_t j = 0; j < MAXA; ++j) {
        if (j < arity) __CPROVER_assert(g_num[0][j] == ss0[j], "C12 the j-th generated slot is the slot update installed for virtual parameter j");
        if (j + 1 < arity) __CPROVER_assert(g_num[1][j] == ss0[arity + j], "C12 the j-th generated stride is the stride update installed for virtual parameter j + 1");
    }
    for (size_t i = 0; i < 2 * MAXA; ++i) __CPROVER_assert(g_ss[i] == ss0[i], "the installed array is only read");
    YV_COVER(arity == 1, "uni-method");
    YV_COVER(arity == 4 && g_num[0][3] == 7 && g_num[1][2] == 12, "arity 4");
    YV_COVER(arity == MAXA, "largest arity");
}
'''


def split_stream_chains(ex, body):
    """`os << a << b << c;` -> one emit call per operand."""
    n = [0]

    def rep(m):
        parts = [p.strip() for p in re.split(r'<<', m.group(1))]
        out = []
        for p in parts:
            if not p:
                continue
            if p.startswith('"') or p in ('comma', 'method_name', 'prefix', 'sep'):
                out.append('yv_emit_str(%s);' % ('"<method name>"' if p == 'method_name' else p))
            else:
                out.append('yv_emit_num(%s);' % p)
        n[0] += 1
        return ' '.join(out)
    body = re.sub(r'\bos\s*<<((?:[^;"]|"(?:[^"\\]|\\.)*")*);', rep, body)
    ex.rules_fired.append(('os << chain -> emit calls', n[0]))
    if n[0] < 3:
        raise X.ExtractionBroken('write_static_offsets: %d output statements found' % n[0])
    return body


RULES = [
    X.Rule('using namespace', r'\busing\s+namespace\s+[\w:]+\s*;', ''),
    X.Rule('method_name (demangle) dropped', r'auto\s+method_name\s*=\s*boost::core::demangle\([^;]*\);', '', 1, 1),
    X.Rule('auto in for-init', r'for\s*\(\s*auto\s+(\w+)\s*=', r'for (__auto_type \1 ='),
    X.Rule('auto comma = ""', r'\bauto\s+(\w+)\s*=\s*"', r'const char *\1 = "'),
    X.split_auto_declarators,
    split_stream_chains,
    X.Rule('method.arity()', r'\bmethod\.arity\(\)', 'METHOD_ARITY(method)'),
] + X.COMMON_RULES


def jobs(tier):
    ex = X.find_function(REL, r'void\s+generator::write_static_offsets\(\s*const\s+detail::method_info&\s+method,\s*std::ostream&\s+os\)')
    X.apply_rules(ex, RULES)
    left = ex.body
    if re.search(r'\bauto\b|std::|<<|boost::', left):
        raise X.ExtractionBroken('write_static_offsets: untranslated C++ left: %s' % re.findall(r'[^\n]*(?:auto|std::|<<)[^\n]*', left)[:2])
    ex.dropped.append('auto method_name = boost::core::demangle(...)  (the method\'s name is emitted as an opaque token)')
    c = TEXT.replace('@BODY@', ex.body)
    return [Job(unit='generator', config='write_static_offsets', c_text=c, entry='h_write_static_offsets', kind='bounded',
                unwind=70, bound='write_static_offsets: arity <= 8 (the property quantifies over arity 1..4), all array contents',
                min_obligations=10, min_cover=3, object_bits=10,
                functions=['%s generator::write_static_offsets(const method_info&, ostream&) sha256:%s' % (ex.where(), ex.sha())],
                trusted=['ostream << as an append to a ghost log (numbers and the literal opening the strides list are observed)',
                         'method_info::arity() as vp_end - vp_begin'],
                assumptions=['the layout "slots, then strides" is defined by its consumer: the extracted resolve functions and install_gv (units/resolve, DESIGN.md section 6 C12)'],
                extracted=[ex], props=['C12'], timeout=600)]
