"""compiler<Policy>::best - proof for ANY number of candidates.

The function is cut at its loop boundaries (DESIGN.md 2.11) and the result
vector is a Skolem vector keyed by one element (2.12): its size, whether the
Skolem candidate E is a member and at which position; an element read at any
other position is an arbitrary *other* candidate.  Obligations (all loop-free,
over arbitrary states satisfying the invariants):

  P1  a single result is more specific than every other candidate
      - established by the final confirmation loop alone (Skolem position K);
  P2  a candidate that is more specific than every other one is the single
      result (E := that candidate; the hypothesis is used at the elements read);
  P3  the result is empty iff there is no candidate;
  P4  results are candidates, each at most once (every push is a candidate that
      is not yet a member).

is_more_specific is its contract: the uninterpreted dom over candidate
indices, irreflexive and asymmetric (specificity/dom-lemmas), NOT transitive.
"""
import re

from engine import extract as X
from engine.core import Job
from units import best as B

REL = B.REL

TEXT = r'''
#include "yv.h"
typedef struct cdefinition { int unused; } cdefinition;
#define definition cdefinition
#define NCAND ((size_t)1 << 20)
cdefinition g_defs[1];                /* candidates are named by their index; the pointer is base + index */
#define DEFP(i) ((const cdefinition *)((uintptr_t)0x10000 + (i) * 8))
#define IDX(p) ((size_t)(((uintptr_t)(p) - (uintptr_t)0x10000) / 8))
_Bool __CPROVER_uninterpreted_dom(size_t i, size_t j);
#define DOM(i, j) __CPROVER_uninterpreted_dom((i), (j))

size_t g_ncand;                       /* number of candidates: any value; candidate k is DEFP(k): pairwise distinct */
size_t g_E;                           /* Skolem candidate */
_Bool g_H;                            /* hypothesis of P2: E is more specific than every other candidate */
/* std::vector<const definition*> candidates: only size and element access are used */
typedef struct { size_t n; } vec_cand;
#define CAND_AT(v, i) DEFP(i)
/* the result vector as a Skolem vector keyed by E */
typedef struct { size_t n; } vec_defp;
struct { _Bool memE; size_t posE; size_t limit; } S;      /* limit: elements are candidates with index < limit */
size_t nondet_size_t(void);
static const cdefinition *yv_at(vec_defp *v, size_t pos)
{
    __CPROVER_assert(pos < v->n, "iterator is dereferenceable");
    if (S.memE && pos == S.posE) return DEFP(g_E);
    size_t x = nondet_size_t();
    __CPROVER_assume(x < S.limit && x < g_ncand && x != g_E);     /* some other candidate that was pushed earlier (P4) */
    if (g_H) __CPROVER_assume(DOM(g_E, x));                        /* instance of the hypothesis of P2 */
    return DEFP(x);
}
static size_t vec_defp_erase(vec_defp *v, size_t pos)
{
    __CPROVER_assert(pos < v->n, "erase: iterator is dereferenceable");
    if (S.memE && pos == S.posE) S.memE = 0;
    else if (S.memE && pos < S.posE) --S.posE;
    --v->n;
    return pos;
}
size_t g_pushed_bad;
static void vec_defp_push_back(vec_defp *v, const cdefinition *x)
{
    __CPROVER_assert(IDX(x) < g_ncand && x == DEFP(IDX(x)), "P4 only candidates are pushed");
    __CPROVER_assert(!(IDX(x) == g_E && S.memE), "P4 a candidate is never pushed while it is a member");
    if (IDX(x) == g_E) { S.memE = 1; S.posE = v->n; }
    ++v->n;
}
#undef VEC_BEGIN
#undef VEC_END
#define VEC_BEGIN(v) ((size_t)0)
#define VEC_END(v) ((v).n)
#define YV_AT(v, it) yv_at(&(v), (it))
#define YV_FRONT(v) yv_at(&(v), 0)
static bool is_more_specific(const cdefinition *a, const cdefinition *b) { return DOM(IDX(a), IDX(b)); }

/* locals of best() */
vec_defp best; vec_cand g_cands; const cdefinition *spec, *candidate; size_t yv_i_spec, iter;
_Bool g_broke;
#define candidates g_cands

static void seg_pre(void) { @PRE@ }
static void seg_outer_prologue(void) { @OUTER_PRO@ }
static void seg_inner_body(void) { g_broke = 1; do { @INNER_BODY@ g_broke = 0; } while (0); }
static void seg_outer_epilogue(void) { @OUTER_EPI@ }
static void seg_check_body(void) { g_broke = 1; do { @CHECK_BODY@ g_broke = 0; } while (0); }

static void arbitrary(void)
{
    g_ncand = nondet_size_t(); __CPROVER_assume(g_ncand <= NCAND);
    g_cands.n = g_ncand;
    g_E = nondet_size_t(); __CPROVER_assume(g_E < g_ncand || g_ncand == 0);
    g_H = nondet_bool();
    best.n = nondet_size_t(); S.memE = nondet_bool(); S.posE = nondet_size_t(); S.limit = nondet_size_t();
    yv_i_spec = nondet_size_t(); iter = nondet_size_t();
    size_t c = nondet_size_t(); candidate = c < g_ncand ? DEFP(c) : (const cdefinition *)0;
    size_t sp = nondet_size_t(); spec = DEFP(sp);
}
/* dom-lemmas: irreflexive, asymmetric - assumed at the instances used */
#define ASYM(i, j) __CPROVER_assume(!(DOM(i, j) && DOM(j, i)))

/* invariant of the outer loop at index i */
#define OUTER_INV(i) (best.n <= (i) && S.limit == (i) && (!S.memE || (g_E < (i) && S.posE < best.n)) && \
                      ((i) == 0 || best.n >= 1) && \
                      (!(g_H && g_E < (i)) || (S.memE && best.n == 1 && S.posE == 0)))
/* invariant of the inner loop while candidate i is being inserted */
#define INNER_INV(i) (iter <= best.n && best.n <= (i) && S.limit == (i) && candidate == DEFP(i) && spec == DEFP(i) && \
                      (!S.memE || (g_E < (i) && S.posE < best.n)) && \
                      (!(g_H && g_E < (i)) || (S.memE && best.n == 1 && S.posE == 0 && iter == 0)) && \
                      (!(g_H && g_E == (i)) || (iter == 0 && !S.memE)))

void h_pre(void)
{
    arbitrary();
    S.memE = 0; S.limit = 0;        /* ghost: nothing pushed yet */
    seg_pre();
    __CPROVER_assert(OUTER_INV(0), "outer loop invariant holds on entry (empty result)");
    YV_COVER(g_ncand > 5, "several candidates");
}
void h_outer_prologue(void)
{
    arbitrary();
    size_t i = yv_i_spec; __CPROVER_assume(i < g_ncand && OUTER_INV(i));
    seg_outer_prologue();
    iter = VEC_BEGIN(best);          /* the inner loop's init expression */
    __CPROVER_assert(INNER_INV(i), "inner loop invariant holds on entry");
    YV_COVER(g_H && g_E < i, "the dominating candidate was already inserted");
}
void h_inner_step(void)
{
    arbitrary();
    size_t i = yv_i_spec; __CPROVER_assume(i < g_ncand && INNER_INV(i) && iter != VEC_END(best));
    ASYM(g_E, i);
    if (g_H && g_E != i) __CPROVER_assume(DOM(g_E, i));           /* hypothesis of P2 at the candidate being inserted */
    size_t n0 = best.n;
    seg_inner_body();
    if (!g_broke) {
        __CPROVER_assert(INNER_INV(i), "inner loop step: invariant preserved (erase or advance)");
        __CPROVER_assert(best.n + iter > n0 + 0 || best.n < n0 || iter > 0, "progress");
    } else {
        __CPROVER_assert(candidate == (const cdefinition *)0 && best.n == n0 && best.n >= 1, "break: the candidate is dropped, the result is unchanged and not empty");
        __CPROVER_assert(!(g_H && g_E == i), "P2: the dominating candidate is never dropped");
        __CPROVER_assert(!S.memE || (g_E < i && S.posE < best.n), "P4 bookkeeping");
        __CPROVER_assert(!(g_H && g_E < i) || (S.memE && best.n == 1 && S.posE == 0), "P2: the dominating candidate stays the single element");
    }
    YV_COVER(!g_broke && best.n < n0, "an element is erased");
    YV_COVER(g_broke, "the candidate is dominated");
    YV_COVER(!g_broke && best.n == n0, "advance");
    YV_COVER(g_H && g_E == i && !g_broke, "the dominating candidate erases an element");
}
void h_outer_epilogue(void)
{
    arbitrary();
    size_t i = yv_i_spec; __CPROVER_assume(i < g_ncand);
    _Bool broke = nondet_bool();
    if (!broke) { __CPROVER_assume(INNER_INV(i) && iter == VEC_END(best)); }          /* normal exit of the inner loop */
    else {                                                                             /* exit through break */
        __CPROVER_assume(candidate == (const cdefinition *)0 && best.n >= 1 && best.n <= i && S.limit == i &&
                         (!S.memE || (g_E < i && S.posE < best.n)) && !(g_H && g_E == i) &&
                         (!(g_H && g_E < i) || (S.memE && best.n == 1 && S.posE == 0)));
    }
    if (g_H && g_E == i && !broke) __CPROVER_assume(best.n == 0);   /* inner invariant: iter == 0 == end */
    seg_outer_epilogue();
    S.limit = i + 1;                 /* ghost: candidate i has been considered */
    __CPROVER_assert(OUTER_INV(i + 1), "outer loop step: P3 (not empty), P4 (members are earlier candidates), P2 (a dominating candidate is the single element)");
    YV_COVER(!broke && g_E == i, "the Skolem candidate is pushed");
}
/* the confirmation loop: entered with exactly one element, which we call E */
size_t g_K;
void h_check_step(void)
{
    arbitrary();
    size_t j = yv_i_spec; __CPROVER_assume(j < g_ncand);
    g_K = nondet_size_t();
    __CPROVER_assume(best.n == 1 && S.memE && S.posE == 0 && S.limit == g_ncand && g_E < g_ncand);
    /* invariant: every candidate before j is E or is dominated by E (Skolem K) */
    __CPROVER_assume(!(g_K < j) || g_K == g_E || DOM(g_E, g_K));
    if (g_H && j != g_E) __CPROVER_assume(DOM(g_E, j));
    spec = DEFP(j);
    seg_check_body();
    if (!g_broke) {
        __CPROVER_assert(best.n == 1 && S.memE && S.posE == 0, "confirmation step: nothing pushed");
        __CPROVER_assert(!(g_K < j + 1) || g_K == g_E || DOM(g_E, g_K), "P1 invariant: every candidate seen so far is the element or dominated by it");
    } else {
        __CPROVER_assert(best.n == 2, "a candidate the single element does not dominate makes the result ambiguous");
        __CPROVER_assert(!g_H, "P2: nothing is added when the element dominates every other candidate");
    }
    YV_COVER(g_broke, "ambiguity detected by the confirmation loop");
    YV_COVER(!g_broke && j == g_E, "the element itself is skipped");
}
/* exits */
void h_exit(void)
{
    arbitrary();
    g_K = nondet_size_t();
    /* after the outer loop */
    __CPROVER_assume(OUTER_INV(g_ncand));
    __CPROVER_assert((best.n == 0) == (g_ncand == 0), "P3 the result is empty iff there is no candidate");
    __CPROVER_assert(!(g_H && g_ncand > 0) || (S.memE && best.n == 1), "P2 a candidate more specific than every other one is the single result after the main loops");
    /* after the confirmation loop ran to completion with a single element E */
    if (best.n == 1 && S.memE) {
        __CPROVER_assume(!(g_K < g_ncand) || g_K == g_E || DOM(g_E, g_K));
        __CPROVER_assert(!(g_K < g_ncand && g_K != g_E) || DOM(g_E, g_K), "P1 a single result is more specific than every other candidate");
    }
    YV_COVER(best.n == 1 && g_ncand > 3, "single result");
    YV_COVER(best.n == 0, "no candidate");
}
'''


def decompose(ex):
    body = ex.body
    hs = X.loop_headers(body)
    if len(hs) != 3:
        raise X.ExtractionBroken('best: %d loops (expected 3: insertion, elimination, confirmation)' % len(hs))
    bl = []
    for (kw, a, b) in hs:
        m = re.compile(r'\s*\{').match(body, b)
        if not m:
            raise X.ExtractionBroken('best: loop without block')
        ob = m.end() - 1
        bl.append((a, b, ob, X.match_close(body, ob), X.norm_ws(body[a:b])))
    exp = ['for (size_t yv_i_spec = 0; yv_i_spec < candidates.n; ++yv_i_spec)',
           'for (__auto_type iter = VEC_BEGIN(best); iter != VEC_END(best);)',
           'for (size_t yv_i_spec = 0; yv_i_spec < candidates.n; ++yv_i_spec)']
    for k in range(3):
        if bl[k][4] != exp[k]:
            raise X.ExtractionBroken('best: loop %d header is `%s`, the proof skeleton expects `%s`' % (k, bl[k][4], exp[k]))
    o, i, c = bl
    if not (o[2] < i[0] and i[3] < o[3] and o[3] < c[0]):
        raise X.ExtractionBroken('best: unexpected loop nesting')
    guard = X.norm_ws(body[o[3] + 1:c[0]])
    if guard != 'if (VEC_SIZE(best) == 1) {':
        raise X.ExtractionBroken('best: the confirmation loop is not guarded by `if (best.size() == 1)`: `%s`' % guard)
    tail = X.norm_ws(body[c[3] + 1:])
    if tail != '} return best;':
        raise X.ExtractionBroken('best: unexpected statements after the confirmation loop: `%s`' % tail)
    decl = '__auto_type spec = candidates.data[yv_i_spec];'
    seg = {'PRE': body[:o[0]], 'OUTER_PRO': body[o[2] + 1:i[0]], 'INNER_BODY': body[i[2] + 1:i[3]],
           'OUTER_EPI': body[i[3] + 1:o[3]], 'CHECK_BODY': body[c[2] + 1:c[3]]}
    for k in ('OUTER_PRO', 'CHECK_BODY'):
        if decl not in seg[k]:
            raise X.ExtractionBroken('best: the loop variable binding is missing in %s' % k)
    seg['OUTER_PRO'] = seg['OUTER_PRO'].replace(decl, 'spec = CAND_AT(candidates, yv_i_spec);')
    seg['CHECK_BODY'] = seg['CHECK_BODY'].replace(decl, 'spec = CAND_AT(candidates, yv_i_spec);')
    seg['OUTER_PRO'], n = re.subn(r'const\s+definition\*\s+candidate\s*=', 'candidate =', seg['OUTER_PRO'])
    if n != 1:
        raise X.ExtractionBroken('best: declaration of `candidate` not found')
    seg['PRE'], n = re.subn(r'vec_defp\s+best\s*;', '', seg['PRE'])
    if n != 1:
        raise X.ExtractionBroken('best: declaration of the result vector not found')
    return seg


def jobs(tier):
    ex = X.find_function(
        REL, r'template<class Policy>\s*std::vector<const generic_compiler::definition\*>\s*'
             r'compiler<Policy>::best\s*\([^)]*\)')
    X.apply_rules(ex, B.BODY_RULES)
    left = re.sub(r'__auto_type', '', ex.body)
    if re.search(r'\bauto\b|std::|\.begin|\.end\(', left):
        raise X.ExtractionBroken('best: untranslated C++ left in body')
    try:
        seg = decompose(ex)
    except X.ExtractionBroken as e:
        j = Job(unit='best_proof', config='skeleton', c_text='', entry='none', props=['C01', 'C02', 'C03', 'C06'])
        j.broken = 'loop skeleton of best() is not the one the inductive obligations were written for: %s' % e
        return [j]
    c = TEXT
    for k, v in seg.items():
        c = c.replace('@%s@' % k, v)
    out = []
    for cfg, entry, mo, mc in (('pre', 'h_pre', 1, 1), ('outer-prologue', 'h_outer_prologue', 1, 1), ('inner-step', 'h_inner_step', 5, 4),
                               ('outer-epilogue', 'h_outer_epilogue', 1, 1), ('confirmation-step', 'h_check_step', 3, 2), ('exit', 'h_exit', 3, 2)):
        out.append(Job(unit='best_proof', config=cfg, c_text=c, entry=entry, kind='proof', unwind=3, min_obligations=mo, min_cover=mc,
                       functions=['%s compiler<Policy>::best sha256:%s' % (ex.where(), ex.sha())],
                       trusted=['std::vector<const definition*> as a Skolem vector keyed by one element: size, membership and position of the Skolem candidate; '
                                'any other element read is an arbitrary other candidate pushed earlier; erase / push_back / begin / end / front per [vector]',
                                'is_more_specific replaced by its contract (uninterpreted dom over candidate indices)'],
                       assumptions=['dom irreflexive and asymmetric (specificity/dom-lemmas), not transitive; candidates pairwise distinct',
                                    'composition of base / step / exit obligations relies on the loop skeleton having the expected shape (checked textually each run) '
                                    'and is exercised by the bounded job best/bounded-nc*',
                                    'Skolemisation: proved for an arbitrary candidate E / position K, hence for all'],
                       extracted=[ex], props=['C01', 'C02', 'C03', 'C06'], timeout=300))
    return out
