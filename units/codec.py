"""generator::encode_dispatch_data (generator.hpp) and decode_dispatch_data
(decode.hpp): bounded round trip on the real code, one concrete registry shape
per job.

The encoder's body is extracted whole: its size computation is kept verbatim,
its `os << ...` statements append to a ghost log (numbers per section; the two
literals that close a section switch sections), the snprintf of the structure
declaration records the five declared array sizes.  The emitted numbers are
laid out in memory exactly as the emitted structure would be (union of the
16-bit encoded part and the pointer-sized decoded v-tables, then the
multi-method tables) and handed to the extracted decoder.  Obligations:

  * the declared sizes match what is emitted (else the initializer does not
    fit the declaration - the text would not compile or would be zero padded);
  * the decoder reads and writes only inside the emitted structure, and never
    overwrites a code it has not read yet (its own BOOST_ASSERT);
  * after decoding, slots / strides, dispatch tables and every class's v-table
    are what install_gv installs (units/install.py's postcondition).
"""
import re

from engine import extract as X
from engine.core import Job

REL_G = 'include/yorel/yomm2/generator.hpp'
REL_D = 'include/yorel/yomm2/decode.hpp'

TEXT = r'''
#include "yv.h"
#include <stdlib.h>
#define NMETH 2
#define NCLASS 4
#define NVT 3
#define NDT 4
#define MAXAR 3
#define NSPEC 3
#define stop_bit ((uint16_t)(1 << 15))
#define index_bit ((uint16_t)(stop_bit >> 1))

/* ---------------- the compiler's result (what update() hands to the generator) ---------------- */
typedef struct cdef { size_t spec_index; uintptr_t pf; } cdef;
typedef struct { const char *name; size_t arity_; } gen_method_info;
typedef struct { size_t data[MAXAR]; size_t n; } vec_size;
typedef struct { const cdef *data[NDT]; size_t n; } vec_cdefp;
typedef struct { cdef data[NSPEC]; size_t n; } vec_cdef;
typedef struct { size_t method_index, vp_index, group_index; } vtbl_entry;
typedef struct { vtbl_entry data[NVT]; size_t n; } vec_entry;
typedef struct cmethod { gen_method_info *info; vec_size vp, slots, strides; vec_cdef specs; vec_cdefp dispatch_table; cdef not_implemented, ambiguous; } cmethod;
typedef struct cclass { size_t first_slot; vec_entry vtbl; } cclass;
typedef struct { cmethod *data; size_t n; } vec_method;
typedef struct { const cmethod *data[NMETH]; size_t n; } vec_methodp;
typedef struct { cclass *data; size_t n; } vec_cclass;
vec_method cmethods; vec_cclass classes;
#define METHOD_ARITY(m) VEC_SIZE((m).vp)

/* ---------------- ghost output log of the encoder ---------------- */
#define LOGCAP 28
int g_section;                       /* 0 slots and strides, 1 v-tables, 2 multi-method tables, 3 after */
size_t g_cnt[3]; uint16_t g_out[3][LOGCAP];
size_t g_decl[5]; size_t g_decl_calls;     /* headroom, slots, encoded vtbls, decoded vtbls, dtbls as declared */
static int yv_streq(const char *a, const char *b) { size_t i = 0; for (; i < 16 && a[i] && b[i]; ++i) if (a[i] != b[i]) return 0; return a[i] == b[i]; }
static void yv_emit_str(const char *s)
{
    if (yv_streq(s, "    }, {\n")) g_section = 1;
    if (yv_streq(s, "   } } }, {\n")) g_section = 2;
    if (yv_streq(s, "    } };\n\n")) g_section = 3;
}
static void yv_emit_num(size_t v)
{
    __CPROVER_assert(g_section < 3 && g_cnt[g_section] < LOGCAP, "output log capacity");
    __CPROVER_assert(v <= 0xffff, "C13 every emitted number fits the 16-bit cell it initialises");
    g_out[g_section][g_cnt[g_section]++] = (uint16_t)v;
}
static void yv_declare_sizes(size_t headroom, size_t slots, size_t evt, size_t dvt, size_t dt)
{
    ++g_decl_calls; g_decl[0] = headroom; g_decl[1] = slots; g_decl[2] = evt; g_decl[3] = dvt; g_decl[4] = dt;
}

void encode_dispatch_data(void)
{
@ENCODER@
}

/* ---------------- the registrations the decoding process holds ---------------- */
typedef struct definition_info { uintptr_t pf; } definition_info;      /* void* in C++; only ever cast to uintptr_t by the decoder */
typedef struct { definition_info *data; size_t n; } vec_definition_info;
typedef struct method_info { size_t *slots_strides_ptr; size_t arity_; vec_definition_info specs; uintptr_t ambiguous, not_implemented; } method_info;
typedef struct class_info { uintptr_t **static_vptr; } class_info;
typedef struct { method_info *data; size_t n; } vec_method_info;
typedef struct { class_info *data; size_t n; } vec_class_info;
vec_method_info yv_methods; vec_class_info yv_classes;
#define MI_ARITY(m) ((m).arity_)
/* the emitted structure: the union's two members start at the same address; they are kept as two typed arrays
   of exactly the declared sizes (so every access is checked against the declared array), and the one place where the
   overlap matters - the decoder's own assertion that it never overwrites a code it has not read yet - is evaluated on
   the byte offsets from that common address */
typedef struct { struct { uint16_t *slots; uint16_t *vtbls; } encoded; uintptr_t *vtbls; uintptr_t *dtbls; } yv_data;
uint16_t *g_enc; uintptr_t *g_dec; uintptr_t *g_dtb; size_t g_H, g_S, g_E, g_W, g_T;
#define ENC_BYTE_OFFSET(p) (2 * (size_t)((p) - g_enc))
#define DEC_BYTE_OFFSET(p) (8 * (size_t)((p) - g_dec))
/* alloca: typed arenas with a bump pointer (CBMC's byte-level model of an untyped malloc'd block that holds both
   pointers and integers produced a spurious mix of two stored words; natively the same C text round-trips) */
#define ARENA(T, name) static T name##_pool[64]; static size_t name##_top; \
    static T *name(size_t bytes) { size_t n = bytes / sizeof(T); T *r = &name##_pool[name##_top]; \
        __CPROVER_assert(name##_top + n <= 64, "harness: alloca arena capacity"); name##_top += n; return r; }
ARENA(method_info *, yv_alloca_mipp)
ARENA(uintptr_t *, yv_alloca_wordpp)
ARENA(uintptr_t, yv_alloca_wordp)
ARENA(size_t, yv_alloca_sizep)
static void yv_copy_n_u16(const uint16_t *src, size_t n, size_t *dst) { for (size_t i = 0; i < n; ++i) dst[i] = src[i]; }
size_t g_publish_calls;
static void policy_publish_vptrs(void) { ++g_publish_calls; }
/* BOOST_ASSERT((char*)(encode_iter + 1) >= (char*)decode_iter) on the offsets from the union's address */
#define BOOST_ASSERT(c) __CPROVER_assert(ENC_BYTE_OFFSET(encode_iter + 1) >= DEC_BYTE_OFFSET(decode_iter), \
    "C13 the decoder never overwrites a code it has not read yet (its own BOOST_ASSERT, evaluated on the offsets inside the union)")

/* locals of the decoder captured by its `fetch` lambda */
uint16_t *encode_iter; uintptr_t *decode_iter; bool last;
static uint16_t yv_fetch(void)
{
@FETCH@
}

void decode_dispatch_data(yv_data *init_p)
{
#define init (*init_p)
@DECODER@
#undef init
#undef method
}

/* ---------------- harness ---------------- */
cmethod g_m[NMETH]; gen_method_info g_gmi[NMETH]; cclass g_c[NCLASS];
method_info g_mi[NMETH]; size_t g_ss[NMETH][2 * MAXAR]; definition_info g_di[NMETH][NSPEC]; class_info g_ci[NCLASS]; uintptr_t *g_svp[NCLASS];
void h_codec(void)
{
    static const size_t cfg_ar[NMETH] = {CFG_AR0, CFG_AR1}, cfg_dt[NMETH] = {CFG_DT0, CFG_DT1}, cfg_ns[NMETH] = {CFG_NS0, CFG_NS1};
    static const size_t cfg_vt[NCLASS] = {CFG_VT0, CFG_VT1, CFG_VT2, CFG_VT3}, cfg_fs[NCLASS] = {CFG_FS0, CFG_FS1, CFG_FS2, CFG_FS3};
    static const size_t cfg_cells[NMETH][NDT] = CFG_CELLS;                /* per dispatch cell: definition index, or specs (ambiguous), specs + 1 (not implemented) */
    static const vtbl_entry cfg_entries[NCLASS][NVT] = CFG_ENTRIES;      /* {method, virtual parameter, group} per v-table entry */
    size_t nm = CFG_NM, nc = CFG_NC;
    cmethods.data = g_m; cmethods.n = nm; classes.data = g_c; classes.n = nc;
    yv_methods.data = g_mi; yv_methods.n = nm; yv_classes.data = g_ci; yv_classes.n = nc;
    for (size_t m = 0; m < NMETH; ++m) {
        size_t ar = cfg_ar[m];
        g_m[m].info = &g_gmi[m]; g_gmi[m].arity_ = ar; g_gmi[m].name = "m";
        g_m[m].vp.n = ar; g_m[m].slots.n = ar; g_m[m].strides.n = ar - 1;
        for (size_t k = 0; k < MAXAR; ++k) { g_m[m].slots.data[k] = nondet_size_t(); g_m[m].strides.data[k] = nondet_size_t();
            __CPROVER_assume(g_m[m].slots.data[k] < 64 && g_m[m].strides.data[k] < 64); }
        g_m[m].specs.n = cfg_ns[m];
        for (size_t k = 0; k < NSPEC; ++k) { g_m[m].specs.data[k].spec_index = k; g_m[m].specs.data[k].pf = nondet_uintptr(); __CPROVER_assume(g_m[m].specs.data[k].pf > 0xffff); }
        /* augment_methods: the two error entries carry spec_index size and size + 1 and the handlers' addresses */
        g_m[m].ambiguous.spec_index = cfg_ns[m]; g_m[m].not_implemented.spec_index = cfg_ns[m] + 1;
        g_m[m].ambiguous.pf = nondet_uintptr(); g_m[m].not_implemented.pf = nondet_uintptr();
        __CPROVER_assume(g_m[m].ambiguous.pf > 0xffff && g_m[m].not_implemented.pf > 0xffff);
        g_m[m].dispatch_table.n = cfg_dt[m];
        for (size_t k = 0; k < NDT; ++k) {                  /* every cell: a definition or one of the two error entries */
            size_t d = cfg_cells[m][k];
            g_m[m].dispatch_table.data[k] = d < cfg_ns[m] ? &g_m[m].specs.data[d] : d == cfg_ns[m] ? &g_m[m].ambiguous : &g_m[m].not_implemented;
        }
        /* the registration record of the same method in the decoding process */
        g_mi[m].arity_ = ar; g_mi[m].slots_strides_ptr = g_ss[m]; g_mi[m].specs.data = g_di[m]; g_mi[m].specs.n = cfg_ns[m];
        for (size_t k = 0; k < NSPEC; ++k) g_di[m][k].pf = g_m[m].specs.data[k].pf;
        g_mi[m].ambiguous = g_m[m].ambiguous.pf; g_mi[m].not_implemented = g_m[m].not_implemented.pf;
        for (size_t k = 0; k < 2 * MAXAR; ++k) g_ss[m][k] = nondet_size_t();
    }
    for (size_t c = 0; c < NCLASS; ++c) {
        g_c[c].vtbl.n = cfg_vt[c]; g_c[c].first_slot = cfg_fs[c];
        g_ci[c].static_vptr = &g_svp[c]; g_svp[c] = (uintptr_t *)0;      /* a fresh process: no v-table yet */
        for (size_t k = 0; k < NVT; ++k) g_c[c].vtbl.data[k] = cfg_entries[c][k];
    }
    g_section = 0; g_cnt[0] = g_cnt[1] = g_cnt[2] = 0; g_decl_calls = 0;

    encode_dispatch_data();

    /* ---- the emitted text as a data structure ---- */
    __CPROVER_assert(g_decl_calls == 1 && g_section == 3, "the structure is declared once and all three sections are closed");
    size_t H = g_decl[0], S = g_decl[1], E = g_decl[2], W = g_decl[3], T = g_decl[4];
    __CPROVER_assert(H < 4096 && S < 4096 && E < 4096 && W < 4096 && T < 4096, "C13 the declared array sizes are sane (no wrap-around: the text must compile)");
    __CPROVER_assert(g_cnt[0] == S, "C13 as many slots and strides are emitted as the slots array declares");
    __CPROVER_assert(g_cnt[1] == E, "C13 as many v-table codes are emitted as the encoded v-table array declares");
    __CPROVER_assert(g_cnt[2] == T, "C13 as many table cells are emitted as the dtbls array declares");
    g_H = H; g_S = S; g_E = E; g_W = W; g_T = T;
    g_enc = malloc(2 * (H + S + E) ? 2 * (H + S + E) : 1); g_dec = malloc(8 * W ? 8 * W : 1); g_dtb = malloc(8 * T ? 8 * T : 1);
    yv_data d;
    d.encoded.slots = g_enc + H; d.encoded.vtbls = g_enc + H + S;
    d.vtbls = g_dec; d.dtbls = g_dtb;
    for (size_t k = 0; k < LOGCAP; ++k) {
        if (k < H) g_enc[k] = 0;
        if (k < S && k < g_cnt[0]) d.encoded.slots[k] = g_out[0][k];
        if (k < E && k < g_cnt[1]) d.encoded.vtbls[k] = g_out[1][k];
        if (k < T && k < g_cnt[2]) d.dtbls[k] = g_out[2][k];
    }
    /* ---- what the decoder will see: a reference parse of the emitted v-table codes (first slot, then entries up to
            the one carrying the stop bit; an entry is one code with the index bit or two codes) ---- */
    {
        size_t pos = 0, words = 0; _Bool ok = 1;
        size_t want = 0;
        for (size_t c = 0; c < NCLASS; ++c) if (c < nc) want += cfg_vt[c];
        __CPROVER_assert(W == want, "C13 the declared decoded v-table array holds exactly the v-table words of all classes");
        if (W < want) ok = 0;
        for (size_t c = 0; c < NCLASS; ++c) {
            if (c >= nc || !ok) continue;
            size_t w0 = words; _Bool stop = 0;
            /* first slot */
            if (!(pos < E)) { ok = 0; continue; }
            if (!(2 * (H + S + pos + 1) >= 8 * words)) ok = 0;
            stop = (g_out[1][pos] & stop_bit) != 0; ++pos;
            for (size_t k = 0; k < NVT + 2; ++k) {
                if (stop || !ok) break;
                if (!(pos < E)) { ok = 0; break; }
                if (!(2 * (H + S + pos + 1) >= 8 * words)) ok = 0;
                uint16_t code = g_out[1][pos]; stop = (code & stop_bit) != 0; ++pos;
                if (!(code & index_bit)) {
                    if (!(pos < E)) { ok = 0; break; }
                    if (!(2 * (H + S + pos + 1) >= 8 * words)) ok = 0;
                    stop = (g_out[1][pos] & stop_bit) != 0; ++pos;
                }
                ++words;
            }
            if (!stop || words - w0 != cfg_vt[c]) ok = 0;
        }
        if (pos != E) ok = 0;
        __CPROVER_assert(ok, "C13 the emitted v-table codes form, class by class, exactly the sequences the decoder parses (a stop code ends each class, also one without entries) "
                             "and leave enough headroom for decoding in place");
        __CPROVER_assume(ok);       /* the real decoder is run on streams it can parse; anything else is already reported */
    }
    g_publish_calls = 0;

    decode_dispatch_data(&d);

    /* ---- same state as after update() (install_gv's postcondition) ---- */
    size_t tpos = 0;
    for (size_t m = 0; m < NMETH; ++m) {
        if (m >= nm) continue;
        size_t ar = cfg_ar[m];
        for (size_t k = 0; k < MAXAR; ++k) {
            if (k < ar) __CPROVER_assert(g_ss[m][k] == g_m[m].slots.data[k], "C13 decoded slots are the installed ones");
            if (k + 1 < ar) __CPROVER_assert(g_ss[m][ar + k] == g_m[m].strides.data[k], "C13 decoded strides are the installed ones");
        }
        if (ar > 1) {
            for (size_t k = 0; k < NDT; ++k)
                if (k < cfg_dt[m]) __CPROVER_assert(d.dtbls[tpos + k] == g_m[m].dispatch_table.data[k]->pf, "C13 cell k of the decoded multi-method table is the function update put there");
            tpos += cfg_dt[m];
        }
    }
    size_t wpos = 0;
    for (size_t c = 0; c < NCLASS; ++c) {
        if (c >= nc) continue;
        __CPROVER_assert(g_svp[c] == d.vtbls + wpos - cfg_fs[c], "C13 the class's static v-table pointer addresses its decoded v-table, biased by the first slot");
        for (size_t k = 0; k < NVT; ++k) {
            if (k >= cfg_vt[c]) continue;
            const vtbl_entry *e = &g_c[c].vtbl.data[k];
            __CPROVER_assert(wpos + k < W, "C13 the decoded cell lies inside the declared v-table array");
            uintptr_t word = d.vtbls[wpos + k];
            if (cfg_ar[e->method_index] == 1)
                __CPROVER_assert(word == g_m[e->method_index].dispatch_table.data[e->group_index]->pf, "C13 uni-method cell: the function update selected for this class");
            else if (e->vp_index == 0) {
                size_t row = 0; for (size_t mm = 0; mm < NMETH; ++mm) if (mm < e->method_index && cfg_ar[mm] > 1) row += cfg_dt[mm];
                __CPROVER_assert(word == (uintptr_t)(d.dtbls + row + e->group_index), "C13 first virtual parameter: address of the group's row in the decoded table");
            } else
                __CPROVER_assert(word == e->group_index, "C13 later virtual parameter: the group index");
        }
        wpos += cfg_vt[c];
    }
    __CPROVER_assert(g_publish_calls == 1, "the v-table pointers are published after decoding");
    YV_COVER(1, "round trip completed");
}
'''


def stream_chains(ex, body):
    """`os << a << b;` -> emit calls; string-like operands (literals, indent, demangle(...), policy name) are text,
    everything else is a number."""
    n = [0]

    def rep(m):
        parts = [p.strip() for p in re.split(r'<<', m.group(1))]
        out = []
        for p in parts:
            if not p:
                continue
            if p in ('std::hex', 'std::showbase'):
                continue
            if p.startswith('"') or p == 'indent' or p == 'prelude' or p.startswith('boost::core::demangle') or p.startswith('(policy.empty()'):
                out.append('yv_emit_str(%s);' % (p if p.startswith('"') else '"<text>"'))
            else:
                out.append('yv_emit_num(%s);' % p)
        n[0] += 1
        return ' '.join(out)
    body = re.sub(r'\bos\s*<<((?:[^;"]|"(?:[^"\\]|\\.)*")*);', rep, body)
    ex.rules_fired.append(('os << chain -> emit calls', n[0]))
    if n[0] < 10:
        raise X.ExtractionBroken('encode_dispatch_data: only %d output statements found' % n[0])
    return body


def accumulate_stmt(ex, body):
    """[auto] x = std::accumulate(V.begin(), V.end(), init, [](auto sum, auto& e) { BODY });  BODY returns on every path"""
    rx = re.compile(r'(auto\s+)?(\w+)\s*=\s*std::accumulate\(\s*([\w.]+)\.begin\(\),\s*\3\.end\(\),\s*([^,]+?),\s*\[\]\(auto\s+(\w+),\s*auto&\s*(\w+)\)\s*\{')
    n = 0
    pos = 0
    while True:
        m = rx.search(body, pos)
        if not m:
            break
        ob = m.end() - 1
        cb = X.match_close(body, ob)
        tail = re.compile(r'\s*\)\s*;').match(body, cb + 1)
        if not tail:
            raise X.ExtractionBroken('std::accumulate: unexpected text after the lambda')
        decl, x, v, init, acc, e = m.groups()
        lam = body[ob + 1:cb]
        lam = re.sub(r'\breturn\s+([^;]+);', lambda r: 'yv_acc = %s;' % r.group(1), lam)
        lam = re.sub(r'\b%s\b' % e, '(*yv_x)', lam)
        lam = re.sub(r'\b%s\b' % acc, 'yv_acc', lam)
        new = ('%s{ size_t yv_acc = %s; for (size_t yv_k = 0; yv_k < VEC_SIZE(%s); ++yv_k) { __typeof__(&%s.data[0]) yv_x = &%s.data[yv_k]; %s } %s = yv_acc; }'
               % ('size_t %s; ' % x if decl else '', init, v, v, v, lam, x))
        body = body[:m.start()] + new + body[tail.end():]
        pos = m.start() + len(new)
        n += 1
    ex.rules_fired.append(('std::accumulate with a lambda -> loop', n))
    if n != 2:
        raise X.ExtractionBroken('encode_dispatch_data: %d std::accumulate statements (expected 2)' % n)
    return body


def ostream_transform(ex, body):
    """[auto it =] std::transform(V.begin(), V.end()[ - 1], std::ostream_iterator<uint16_t>(os, ", "), [..](auto x) { return E; });"""
    rx = re.compile(r'(?:auto\s+\w+\s*=\s*)?std::transform\(\s*([\w.>-]+)\.begin\(\),\s*\1\.end\(\)(\s*-\s*1)?,\s*std::ostream_iterator<uint16_t>\(os,\s*", "\),\s*'
                    r'\[[^\]]*\]\(auto\s+(\w+)\)\s*\{\s*return\s+([^;]+);\s*\}\s*\)\s*;')
    n = [0]

    def rep(m):
        n[0] += 1
        v, minus, x, e = m.groups()
        return ('for (size_t yv_k = 0; yv_k + %d < VEC_SIZE(%s) + 0; ++yv_k) { __auto_type %s = %s.data[yv_k]; yv_emit_num(%s); }'
                % (1 if minus else 0, v, x, v, e)).replace('yv_k + 0 <', 'yv_k <')
    body = rx.sub(rep, body)
    ex.rules_fired.append(('std::transform to ostream_iterator<uint16_t> -> emit loop', n[0]))
    return body


ENC_RULES = [
    X.Rule('indent literal', r'const\s+char\*\s+indent\s*=\s*"[^"]*"\s*;', '', 1, 1),
    X.Rule('using namespace', r'\busing\s+namespace\s+[\w:]+\s*;', ''),
    X.Rule('unused vectors', r'std::vector<std::(?:size_t|uintptr_t)>\s+\w+\s*;', '', 2, 2),
    X.Rule('prelude format (raw string)', r'char\s+prelude_format\[\]\s*=\s*R"\((?:.|\n)*?\)"\s*;', '', 1, 1),
    X.Rule('prelude buffer', r'char\s+prelude\[[^\]]*\]\s*;', '', 1, 1),
    X.Rule('snprintf of the declaration -> declared sizes', r'std::snprintf\(\s*prelude,\s*sizeof\(prelude\),\s*prelude_format,\s*([^;]+)\)\s*;', r'yv_declare_sizes(\1);', 1, 1),
    X.Rule('std::size_t(0)', r'std::size_t\((\w+)\)', r'((size_t)(\1))'),
    X.Rule('compiler.methods', r'\bcompiler\.methods\b', 'cmethods'),
    X.Rule('compiler.classes', r'\bcompiler\.classes\b', 'classes'),
    X.Rule('range(begin, end)', r'\brange\(\s*cmethods\.begin\(\),\s*cmethods\.end\(\)\s*\)', 'cmethods', 1, 1),
    X.Rule('method.arity()', r'\bmethod\.arity\(\)', 'METHOD_ARITY(method)'),
    X.Rule('x.size()', r'\b([\w.>-]+)\.size\(\)', r'VEC_SIZE(\1)'),
    X.Rule('vtbl.empty()', r'\b([\w.>-]*vtbl)\.empty\(\)', r'(VEC_SIZE(\1) == 0)'),
    accumulate_stmt,
    X.Rule('local vector of method pointers', r'std::vector<const generic_compiler::method\*>\s+methods\s*;', 'vec_methodp methods; methods.n = 0;', 1, 1),
    X.Rule('methods.resize', r'\bmethods\.resize\(([^;]+)\)\s*;', r'methods.n = \1;', 1, 1),
    X.Rule('std::transform(address-of)', r'std::transform\(\s*cmethods\.begin\(\),\s*cmethods\.end\(\),\s*methods\.begin\(\),\s*\[\]\(auto&\s*(\w+)\)\s*\{\s*return\s+&\1;\s*\}\s*\)\s*;',
           'for (size_t yv_t = 0; yv_t < VEC_SIZE(cmethods); ++yv_t) methods.data[yv_t] = &cmethods.data[yv_t];', 1, 1),
    ostream_transform,
    X.Rule('*dt_iter = v (ostream_iterator assignment)', r'\*dt_iter\s*=\s*([^;]+);', r'yv_emit_num(\1);', 1, 1),
    X.Rule('auto& last = v.back()', r'auto&\s+last\s*=\s*([\w.]+)\.back\(\)\s*;', r'__auto_type last = \1.data[VEC_SIZE(\1) - 1];', 1, 1),
    X.Rule('&v.back()', r'&([\w.]+)\.back\(\)', r'&\1.data[VEC_SIZE(\1) - 1]'),
    stream_chains,
    X.range_for_by_ref('__typeof__(YV_ELEM)', 4),
    X.Rule('method.arity()', r'\bmethod\.arity\(\)', 'METHOD_ARITY(method)'),
    X.Rule('method->info->arity()', r'\bmethod->info->arity\(\)', 'method->info->arity_'),
    X.Rule('method->arity()', r'\bmethod->arity\(\)', 'METHOD_ARITY(*method)'),
    X.Rule('slots[i] / strides[i]', r'->(slots|strides)\[', r'->\1.data['),
    X.Rule('methods[i]', r'(?<![\w.])methods\[([^\]]+)\]', r'methods.data[\1]'),
    X.Rule('dispatch_table[i]', r'->dispatch_table\[([^\]]+)\]', r'->dispatch_table.data[\1]'),
    X.Rule('x.size()', r'\b([\w.>-]+)\.size\(\)', r'VEC_SIZE(\1)'),
    X.Rule('uint16_t(e)', r'\buint16_t\(', '(uint16_t)('),
    X.split_auto_declarators,
] + X.COMMON_RULES


def make_encoder():
    ex = X.find_function(REL_G, r'template<class Compiler>\s*void\s+generator::encode_dispatch_data\(\s*const Compiler& compiler, const std::string& policy, std::ostream& os\)')
    X.apply_rules(ex, ENC_RULES)
    body = ex.body
    body = body.replace('__typeof__(YV_ELEM) *const cls_p', 'cclass *const cls_p')
    body = body.replace('__typeof__(YV_ELEM) *const entry_p', 'vtbl_entry *const entry_p')
    body = re.sub(r'__typeof__\(YV_ELEM\) \*const method_p = &methods\.data', 'const cmethod **const method_p = &methods.data', body)
    body = body.replace('__typeof__(YV_ELEM) *const method_p', 'cmethod *const method_p')
    left = re.sub(r'__auto_type|__typeof__', '', body)
    if re.search(r'\bauto\b|std::|boost::|YV_ELEM|<<\s*[a-zA-Z"]|\bos\b', left):
        raise X.ExtractionBroken('encode_dispatch_data: untranslated C++ left: %s' % re.findall(r'[^\n]*(?:\bauto\b|std::|boost::|YV_ELEM|\bos\b)[^\n]*', left)[:3])
    ex.body = body
    return ex


DEC_RULES = [
    X.drop_trace,
    X.Rule('using namespace', r'\busing\s+namespace\s+[\w:]+\s*;', ''),
    X.Rule('trace object', r'trace_type<Policy>\s+trace\s*;', '', 1, 1),
    X.Rule('indent alias', r'using\s+indent\s*=\s*typename\s+trace_type<Policy>::indent\s*;', '', 1, 1),
    X.Rule('indent guards', r'\bindent\s+_\w*\(trace\)\s*;', ''),
    X.Rule('constexpr pointer_size', r'constexpr\s+auto\s+pointer_size\s*=', 'const size_t pointer_size ='),
    X.Rule('auto a = 0, b = 0', r'auto\s+method_count\s*=\s*0\s*,\s*multi_method_count\s*=\s*0\s*;', 'int method_count = 0; int multi_method_count = 0;', 1, 1),
    X.Rule('the fetch lambda (moved to a function over the captured locals)', r'auto\s+fetch\s*=\s*\[&\]\(\)\s*\{(?:.|\n)*?\n\s*\}\s*;', '', 1, 1),
    X.Rule('captured locals become file-scope', r'auto\s+encode_iter\s*=', 'encode_iter =', 1, 1),
    X.Rule('captured locals become file-scope (2)', r'auto\s+decode_iter\s*=', 'decode_iter =', 1, 1),
    X.Rule('captured locals become file-scope (3)', r'\bbool\s+last\s*;', '', 1, 1),
    X.Rule('fetch()', r'\bfetch\(\)', 'yv_fetch()'),
    X.Rule('waste computation (trace only)', r'auto\s+waste\s*=\s*sizeof\(init\.encoded\)\s*-\s*sizeof\(init\.vtbls\)\s*;\s*if\s*\(\s*waste\s*>\s*0\s*\)\s*\{\s*\}', '', 1, 1),
    X.eval_if_constexpr(lambda c: True if c.replace(' ', '') == 'Policy::templatehas_facet<policy::external_vptr>' else None, 1),
    X.Rule('Policy::publish_vptrs', r'Policy::publish_vptrs\(\s*Policy::classes\.begin\(\),\s*Policy::classes\.end\(\)\s*\)\s*;', 'policy_publish_vptrs();', 1, 1),
    X.Rule('Policy::methods', r'Policy::methods\b', 'yv_methods'),
    X.Rule('Policy::classes', r'Policy::classes\b', 'yv_classes'),
    X.Rule('(method_info**)alloca', r'\(method_info\*\*\)\s*alloca\(', 'yv_alloca_mipp('),
    X.Rule('(uintptr_t**)alloca', r'\((?:std::)?uintptr_t\*\*\)\s*alloca\(', 'yv_alloca_wordpp('),
    X.Rule('(uintptr_t*)alloca', r'\((?:std::)?uintptr_t\*\)\s*alloca\(', 'yv_alloca_wordp('),
    X.Rule('(size_t*)alloca', r'\((?:std::)?size_t\*\)\s*alloca\(', 'yv_alloca_sizep('),
    X.Rule('std::copy_n', r'std::copy_n\(', 'yv_copy_n_u16(', 1, 1),
    X.Rule('specs = std::transform(specs -> pf)',
           r'(\w+)\s*=\s*std::transform\(\s*method\.specs\.begin\(\),\s*method\.specs\.end\(\),\s*\1,\s*\[\]\(auto&\s*(\w+)\)\s*\{\s*return\s+\(uintptr_t\)\2\.pf;\s*\}\s*\)\s*;',
           r'for (size_t yv_k = 0; yv_k < VEC_SIZE(method.specs); ++yv_k) *\1++ = (uintptr_t)method.specs.data[yv_k].pf;', 1, 1),
    X.range_for_by_ref('__typeof__(YV_ELEM)', 4),
    X.Rule('method.arity()', r'\bmethod\.arity\(\)', 'MI_ARITY(method)'),
    X.Rule('method->arity()', r'\bmethod->arity\(\)', 'MI_ARITY(*method)'),
    X.Rule('specs.size()', r'\bmethod\.specs\.size\(\)', 'VEC_SIZE(method.specs)'),
    X.Rule('(std::uintptr_t)', r'\(std::uintptr_t\)', '(uintptr_t)'),
    X.split_auto_declarators,
] + X.COMMON_RULES


def make_decoder():
    ex0 = X.find_function(REL_D, r'template<class Policy, typename Data>\s*void\s+decode_dispatch_data\(Data& init\)')
    m = re.search(r'auto\s+fetch\s*=\s*\[&\]\(\)\s*\{((?:.|\n)*?)\n\s*\}\s*;', ex0.body)
    if not m:
        raise X.ExtractionBroken('decode_dispatch_data: the fetch lambda was not found')
    fetch = X.Extracted(ex0.rel, '', m.group(1), ex0.line, ex0.end_line)
    X.apply_rules(fetch, [X.split_auto_declarators] + X.COMMON_RULES)
    ex = ex0
    X.apply_rules(ex, DEC_RULES)
    body = ex.body
    body = body.replace('__typeof__(YV_ELEM) *const method_p', 'method_info *const method_p')
    body = body.replace('__typeof__(YV_ELEM) *const cls_p', 'class_info *const cls_p')
    body = body.replace('__typeof__(YV_ELEM) *const spec_p', 'definition_info *const spec_p')
    left = re.sub(r'__auto_type|__typeof__', '', body)
    if re.search(r'\bauto\b|std::|Policy::|YV_ELEM|\btrace\b|\[&\]|\balloca\(', left):
        raise X.ExtractionBroken('decode_dispatch_data: untranslated C++ left: %s' % re.findall(r'[^\n]*(?:\bauto\b|std::|Policy::|YV_ELEM|\btrace\b)[^\n]*', left)[:3])
    ex.body = body
    return ex, fetch


# Concrete registries.  Each: methods [(arity, specs, [cell -> definition index | specs = ambiguous | specs + 1 = not implemented])],
# classes [(first_slot, [(method, virtual parameter, group), ...])].
LAYOUTS = {
    'uni-two-classes': ([(1, 2, [0, 1])], [(0, [(0, 0, 0)]), (0, [(0, 0, 1)])]),
    'uni-and-multi': ([(1, 2, [0, 1, 3]), (2, 3, [0, 1, 3, 4])],
                      [(0, [(0, 0, 0), (1, 0, 0)]), (0, [(0, 0, 1), (1, 0, 1), (1, 1, 1)]), (0, [(1, 1, 0)])]),
    'multi-first': ([(2, 3, [0, 1, 2, 3]), (1, 1, [0, 2])],
                    [(0, [(0, 0, 1), (0, 1, 0), (1, 0, 0)]), (0, [(1, 0, 1)]), (0, [(0, 0, 0), (0, 1, 1)])]),
    'three-virtual-parameters': ([(3, 2, [0, 1, 2, 3]), (1, 2, [1, 0])],
                                 [(0, [(0, 0, 0), (0, 1, 1), (0, 2, 1)]), (0, [(0, 0, 1), (0, 1, 0), (0, 2, 0)]), (0, [(1, 0, 0), (0, 2, 1), (1, 0, 1)]), (0, [(1, 0, 1)])]),
    'vtable-not-at-slot-0': ([(1, 1, [0, 2]), (1, 1, [0, 1])],
                             [(0, [(0, 0, 0), (1, 0, 0)]), (0, [(0, 0, 1)]), (1, [(1, 0, 1)])]),
    'classes-without-entries': ([(1, 2, [0, 1])], [(0, []), (0, []), (0, []), (0, [(0, 0, 0), (0, 0, 1)])]),
    'many-classes-few-methods': ([(1, 1, [0])], [(0, [(0, 0, 0)]), (0, []), (0, [(0, 0, 0)]), (0, [])]),
    'two-multi-methods': ([(2, 3, [0, 1, 2, 4]), (2, 3, [3, 0, 1, 2])],
                          [(0, [(0, 0, 0), (1, 0, 1)]), (0, [(0, 1, 1), (1, 1, 0)])]),
}


def layout_defines(lay):
    methods, classes = lay
    nm, nc = len(methods), len(classes)
    ar = [m[0] for m in methods] + [1] * (2 - nm)
    ns = [m[1] for m in methods] + [1] * (2 - nm)
    cells = [list(m[2]) + [0] * (4 - len(m[2])) for m in methods] + [[0, 0, 0, 0]] * (2 - nm)
    dt = [len(m[2]) for m in methods] + [1] * (2 - nm)
    vt = [len(c[1]) for c in classes] + [0] * (4 - nc)
    fs = [c[0] for c in classes] + [0] * (4 - nc)
    ents = []
    for ci in range(4):
        es = list(classes[ci][1]) if ci < nc else []
        es = es + [(0, 0, 0)] * (3 - len(es))
        ents.append('{' + ','.join('{%d,%d,%d}' % e for e in es) + '}')
    defs = ['CFG_NM=%d' % nm, 'CFG_NC=%d' % nc, 'CFG_AR0=%d' % ar[0], 'CFG_AR1=%d' % ar[1], 'CFG_DT0=%d' % dt[0], 'CFG_DT1=%d' % dt[1],
            'CFG_NS0=%d' % ns[0], 'CFG_NS1=%d' % ns[1]] + ['CFG_VT%d=%d' % (i, vt[i]) for i in range(4)] + ['CFG_FS%d=%d' % (i, fs[i]) for i in range(4)]
    defs.append('CFG_CELLS={%s}' % ','.join('{' + ','.join(str(x) for x in c) + '}' for c in cells))
    defs.append('CFG_ENTRIES={%s}' % ','.join(ents))
    return defs


def jobs(tier):
    exe = make_encoder()
    exd, fetch = make_decoder()
    c = TEXT.replace('@ENCODER@', exe.body).replace('@FETCH@', fetch.body).replace('@DECODER@', exd.body)
    out = []
    for name, lay in LAYOUTS.items():
        defs = layout_defines(lay)
        out.append(Job(unit='codec', config=name, c_text=c, entry='h_codec', kind='bounded', unwind=30, object_bits=10, defines=defs, cbmc_extra=['--no-malloc-may-fail'],
                       bound='encode + decode round trip: one concrete registry per job (%d registries: <= 2 methods of arity 1..3, <= 4 cells per table, <= 4 classes with <= 3 v-table entries, '
                             'error cells, empty v-tables, a v-table that does not start at slot 0); function addresses, slots and strides arbitrary' % len(LAYOUTS),
                       min_obligations=20, min_cover=1,
                       functions=['%s generator::encode_dispatch_data sha256:%s' % (exe.where(), exe.sha()),
                                  '%s decode_dispatch_data sha256:%s' % (exd.where(), exd.sha())],
                       trusted=['ostream insertions as appends to a ghost log: numbers per section, the literals closing a section switch sections; '
                                'snprintf of the declaration records the five declared array sizes',
                                'the emitted structure as one byte buffer laid out as the declared union + dtbls (LP64, 16-bit codes, 8-byte words)',
                                'alloca as typed bump arenas; std::accumulate / std::transform / std::copy_n as their defining loops; the fetch lambda as a function over the three captured locals',
                                'Policy::methods / classes of the decoding process hold the same registrations in the same order as the compiler\'s vectors'],
                       assumptions=['v-table entries name an existing method, one of its virtual parameters and a group below its table size; dispatch cells are definitions or the two error entries (augment_methods / build_dispatch_tables, not under contract)',
                                    'compilability of the emitted text beyond "declared sizes match what is emitted and do not wrap" is not checked'],
                       extracted=[exe, exd, fetch], props=['C13'], timeout=900))
    return out
