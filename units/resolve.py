"""method::resolve / resolve_uni / resolve_multi_first / resolve_multi_next /
vptr / check_static_offset (core.hpp) per signature shape and facet set.

The templates' control flow is decided by `if constexpr` and pack recursion.
For one configuration the partial evaluator below mimics the compiler's
instantiation: every (function, VirtualArg, remaining parameter list) reached
from resolve() becomes one C function whose body is the template's text with
the `if constexpr` conditions evaluated (selected branch kept verbatim) and the
recursive template calls renamed to the corresponding instantiation.  The
whole call tree is loop-free: a harness over fully symbolic memory is a
complete proof for that shape.

Shapes: V = virtual_<T&>, P = virtual_ptr<T>, N = non-virtual.
"""
import itertools
import re

from engine import extract as X
from engine.core import Job, syntactic_frame_job
from engine import replay as R

REL = 'include/yorel/yomm2/core.hpp'
SIG = r'template<typename Key, typename R, class Policy, typename\.\.\. A>\s*'

PRELUDE = r'''
#include "yv.h"
#define DD 128                      /* words of dispatch data (object-size bound) */
uintptr_t dispatch_data[DD];
/* reinterpret_cast<const uintptr_t*>(word): CBMC gives no meaning to integer->pointer casts; the word is
   mapped back to the dispatch-data cell it addresses, and it must address one (C04) */
static inline const uintptr_t *yv_word_to_ptr(uintptr_t w)
{
    uintptr_t base = (uintptr_t)&dispatch_data[0];
    __CPROVER_assert(w >= base && (w - base) % sizeof(uintptr_t) == 0 && (w - base) / sizeof(uintptr_t) < DD,
                     "C04 a v-table word used as an address points at a cell of the dispatch data");
    return &dispatch_data[(w - base) / sizeof(uintptr_t)];
}
#define WORD_TO_PTR(w) yv_word_to_ptr(w)
/* group index x stride: the same machine multiplication in the walk and in the table builder; the walk is
   proved for an arbitrary binary function in its place (two 64x64 multipliers cannot be related by SAT) */
size_t __CPROVER_uninterpreted_mul(size_t a, size_t b);
#define YV_MUL(a, b) __CPROVER_uninterpreted_mul((a), (b))

/* arguments: a polymorphic object (its dynamic class decides the v-table), a virtual_ptr (embeds the
   v-table pointer, or its address for indirect policies), or a non-virtual value */
typedef struct { size_t position; } yv_obj;                       /* which argument it is */
typedef struct { const void *obj; const uintptr_t *vptr; const uintptr_t *const *ivptr; } yv_virtual_ptr;
const uintptr_t *g_vptr_of_arg[8];      /* v-table pointer update() published for each argument's dynamic class */
size_t g_dynamic_vptr_calls;
/* Policy::dynamic_vptr(arg): contract = the v-table pointer published for the dynamic class (units/vptrs) */
static inline const uintptr_t *policy_dynamic_vptr(const yv_obj *arg) { return g_vptr_of_arg[arg->position]; }
#if YV_FACET_INDIRECT
#define VIRTUAL_PTR_VPTR(a) (*(a)->ivptr)     /* virtual_ptr::_vptr(), indirect */
#else
#define VIRTUAL_PTR_VPTR(a) ((a)->vptr)       /* virtual_ptr::_vptr() */
#endif

/* method statics */
#define MAX_ARITY 4
size_t slots_strides[2 * MAX_ARITY - 1];
size_t static_slots[MAX_ARITY]; size_t static_strides[MAX_ARITY];
/* error log */
typedef struct { type_id method; int actual, expected; } static_offset_error;
size_t g_err_calls; int g_err_kind; int g_err_actual, g_err_expected; _Bool g_aborted;
#define YV_ERR_STATIC_SLOT 5
#define YV_ERR_STATIC_STRIDE 6
static inline void policy_error_offset(int kind, const static_offset_error *e)
{
    ++g_err_calls; g_err_kind = kind; g_err_actual = e->actual; g_err_expected = e->expected;
}
#define yv_abort() do { g_aborted = 1; YV_AT_ABORT; __CPROVER_assume(0); } while (0)
#define YV_METHOD_TYPE_ID ((type_id)0x1234)
'''


def get_templates():
    t = {}
    t['resolve'] = X.find_function(REL, SIG + r'template<typename\.\.\. ArgType>\s*inline typename method<Key, R\(A\.\.\.\), Policy>::function_pointer_type\s*'
                                        r'method<Key, R\(A\.\.\.\), Policy>::resolve\(const ArgType&\.\.\. args\)')
    t['vptr'] = X.find_function(REL, SIG + r'template<typename ArgType>\s*inline const std::uintptr_t\*\s*method<Key, R\(A\.\.\.\), Policy>::vptr\(const ArgType& arg\)')
    t['check_static_offset'] = X.find_function(REL, SIG + r'template<class Error>\s*inline void method<Key, R\(A\.\.\.\), Policy>::check_static_offset\(\s*'
                                                    r'std::size_t actual, std::size_t expected\)')
    t['resolve_uni'] = X.find_function(REL, SIG + r'template<typename MethodArgList, typename ArgType, typename\.\.\. MoreArgTypes>\s*'
                                            r'inline std::uintptr_t method<Key, R\(A\.\.\.\), Policy>::resolve_uni\(\s*const ArgType& arg, const MoreArgTypes&\.\.\. more_args\)')
    t['resolve_multi_first'] = X.find_function(REL, SIG + r'template<typename MethodArgList, typename ArgType, typename\.\.\. MoreArgTypes>\s*'
                                                    r'inline std::uintptr_t method<Key, R\(A\.\.\.\), Policy>::resolve_multi_first\(\s*const ArgType& arg, const MoreArgTypes&\.\.\. more_args\)')
    t['resolve_multi_next'] = X.find_function(REL, SIG + r'template<\s*std::size_t VirtualArg, typename MethodArgList, typename ArgType,\s*typename\.\.\. MoreArgTypes>\s*'
                                                   r'inline std::uintptr_t method<Key, R\(A\.\.\.\), Policy>::resolve_multi_next\([^{;]*\)')
    return t


class Inst:
    """Instantiation worklist: (function, VirtualArg, remaining kinds, start position)."""

    def __init__(self, shape, facets, templates):
        self.shape, self.facets, self.t = shape, facets, templates
        self.arity = sum(1 for k in shape if k in 'VP')
        self.done = {}
        self.order = []
        self.notes = []

    def cname(self, fn, va, pos):
        return '%s_va%d_at%d' % (fn, va, pos)

    def argtype(self, kind):
        return {'V': 'const yv_obj *', 'P': 'const yv_virtual_ptr *', 'N': 'const void *'}[kind]

    def params(self, pos):
        return ', '.join('%sarg_%d' % (self.argtype(self.shape[i]), i) for i in range(pos, len(self.shape)))

    def args(self, pos):
        return ', '.join('arg_%d' % i for i in range(pos, len(self.shape)))

    def cond(self, fn, va, pos):
        rest = self.shape[pos:]
        first_kind = rest[0] if rest else None

        def ev(c):
            c = c.replace(' ', '')
            # boolean combinations of the known conditions
            for op, fold in (('||', any), ('&&', all)):
                if op in c:
                    vals = [ev(p) for p in c.split(op)]
                    return None if any(v is None for v in vals) else fold(vals)
            if c.startswith('!'):
                v = ev(c[1:])
                return None if v is None else (not v)
            if c.startswith('(') and c.endswith(')'):
                return ev(c[1:-1])
            if c == 'arity==1':
                return self.arity == 1
            if c == 'is_virtual<mp_first<MethodArgList>>::value':
                if first_kind is None:
                    raise X.ExtractionBroken('instantiation %s<%d> with an empty parameter list (ill-formed in C++)' % (fn, va))
                return first_kind in 'VP'
            if c in ('is_virtual_ptr<ArgType>', 'detail::is_virtual_ptr<ArgType>'):
                return first_kind == 'P'
            if c == 'has_static_offsets<method>::value':
                return self.facets['static']
            if c == 'Policy::templatehas_facet<policy::runtime_checks>':
                return self.facets['checks']
            if c == 'VirtualArg+1==arity':
                return va + 1 == self.arity
            return None
        return ev

    def instantiate(self, fn, va, pos):
        key = (fn, va, pos)
        if key in self.done:
            return self.cname(*key)
        self.done[key] = None
        if fn in ('resolve_uni', 'resolve_multi_first', 'resolve_multi_next') and pos >= len(self.shape):
            raise X.ExtractionBroken('%s<%d> instantiated with no argument left (would not compile in C++)' % (fn, va))
        ex = X.Extracted(self.t[fn].rel, self.t[fn].header, self.t[fn].body, self.t[fn].line, self.t[fn].end_line)
        calls = []

        def call_rule(name, rx, target_fn, new_va, adv):
            def rule(ex_, body):
                def rep(m):
                    tva = new_va(m)
                    tpos = pos + adv
                    if tpos >= len(self.shape):
                        raise X.ExtractionBroken('%s<%d> at parameter %d calls %s with no argument left (ill-formed)' % (fn, va, pos, target_fn))
                    calls.append((target_fn, tva, tpos))
                    extra = 'dispatch, ' if target_fn == 'resolve_multi_next' else ''
                    return '%s(%s%s)' % (self.cname(target_fn, tva, tpos), extra, self.args(tpos))
                body, n = re.subn(rx, rep, body)
                ex_.rules_fired.append((name, n))
                return body
            return rule

        rules = [
            X.Rule('using namespace', r'\busing\s+namespace\s+[\w:]+\s*;', ''),
            X.eval_if_constexpr(self.cond(fn, va, pos)),
            # recursive / forwarding template calls -> the corresponding instantiation
            call_rule('resolve_uni<types<A...>, ArgType...>(args...)', r'resolve_uni<types<A\.\.\.>,\s*ArgType\.\.\.>\(args\.\.\.\)', 'resolve_uni', lambda m: 0, 0),
            call_rule('resolve_multi_first<types<A...>, ArgType...>(args...)', r'resolve_multi_first<types<A\.\.\.>,\s*ArgType\.\.\.>\(args\.\.\.\)', 'resolve_multi_first', lambda m: 0, 0),
            call_rule('resolve_uni<mp_rest<MethodArgList>>(more_args...)', r'resolve_uni<mp_rest<MethodArgList>>\(more_args\.\.\.\)', 'resolve_uni', lambda m: 0, 1),
            call_rule('resolve_multi_first<mp_rest<...>, MoreArgTypes...>(more_args...)',
                      r'resolve_multi_first<mp_rest<MethodArgList>,\s*MoreArgTypes\.\.\.>\(\s*more_args\.\.\.\)', 'resolve_multi_first', lambda m: 0, 1),
            call_rule('resolve_multi_next<K, mp_rest<...>, MoreArgTypes...>(dispatch, more_args...)',
                      r'resolve_multi_next<\s*(VirtualArg(?:\s*\+\s*(\d+))?|\d+),\s*mp_rest<MethodArgList>,\s*MoreArgTypes\.\.\.>\(\s*dispatch,\s*more_args\.\.\.\)',
                      'resolve_multi_next',
                      lambda m: (int(m.group(1)) if m.group(1).isdigit() else va + int(m.group(2) or 0)), 1),
            X.Rule('vptr<ArgType>(arg)', r'\bvptr<ArgType>\(arg\)', 'vptr_%s(arg)' % (self.shape[pos] if pos < len(self.shape) else 'X')),
            X.Rule('arg._vptr()', r'\barg\._vptr\(\)', 'VIRTUAL_PTR_VPTR(arg)'),
            X.Rule('Policy::dynamic_vptr(arg)', r'Policy::dynamic_vptr\(arg\)', 'policy_dynamic_vptr(arg)'),
            X.Rule('reinterpret_cast<function_pointer_type>(pf)', r'reinterpret_cast<function_pointer_type>\(pf\)', 'pf'),
            X.Rule('reinterpret_cast<const uintptr_t*>', r'reinterpret_cast<const std::uintptr_t\*>\(', 'WORD_TO_PTR('),
            X.Rule('check_static_offset<static_slot_error>', r'check_static_offset<static_slot_error>\(', 'check_static_offset_slot('),
            X.Rule('check_static_offset<static_stride_error>', r'check_static_offset<static_stride_error>\(', 'check_static_offset_stride('),
            X.Rule('static_offsets<method>::slots', r'static_offsets<method>::slots\b', 'static_slots'),
            X.Rule('static_offsets<method>::strides', r'static_offsets<method>::strides\b', 'static_strides'),
            X.Rule('this->slots_strides', r'this->slots_strides\b', 'slots_strides'),
            X.Rule('group * stride -> YV_MUL', r'\b(vtbl\[\w+\])\s*\*\s*(\w+)\b', r'YV_MUL(\1, \2)'),
            X.Rule('VirtualArg', r'\bVirtualArg\b', str(va)),
            X.Rule('arity', r'\barity\b', str(self.arity)),
            X.split_auto_declarators,
        ] + X.COMMON_RULES
        X.apply_rules(ex, rules)
        body = ex.body
        if fn in ('resolve_uni', 'resolve_multi_first', 'resolve_multi_next', 'vptr'):
            body = re.sub(r'\barg\b', 'arg_%d' % pos, body) if fn != 'vptr' else body
        left = re.sub(r'__auto_type', '', body)
        if re.search(r'\bauto\b|std::|Policy::|constexpr|mp_rest|MethodArgList|ArgType|<types|\.\.\.', left):
            raise X.ExtractionBroken('%s: untranslated C++ left after partial evaluation: %s' %
                                     (fn, re.findall(r'[^\n]*(?:std::|Policy::|constexpr|mp_rest|ArgType|\.\.\.)[^\n]*', left)[:2]))
        self.done[key] = (ex, body)
        for c in calls:
            self.instantiate(*c)
        self.order.append(key)
        return self.cname(*key)

    def emit(self):
        out = []
        # vptr<ArgType> for the two argument kinds
        exv = self.t['vptr']
        for kind in 'VP':
            ex = X.Extracted(exv.rel, exv.header, exv.body, exv.line, exv.end_line)
            X.apply_rules(ex, [X.eval_if_constexpr(lambda c, k=kind: (k == 'P') if c.replace(' ', '') == 'detail::is_virtual_ptr<ArgType>' else None),
                               X.Rule('arg._vptr()', r'\barg\._vptr\(\)', 'VIRTUAL_PTR_VPTR(arg)'),
                               X.Rule('Policy::dynamic_vptr(arg)', r'Policy::dynamic_vptr\(arg\)', 'policy_dynamic_vptr(arg)')] + X.COMMON_RULES)
            out.append('static inline const uintptr_t *vptr_%s(%sarg)\n{\n%s\n}\n' % (kind, self.argtype(kind), ex.body))
        # check_static_offset<Error>
        exc = self.t['check_static_offset']
        for nm, kind in (('slot', 'YV_ERR_STATIC_SLOT'), ('stride', 'YV_ERR_STATIC_STRIDE')):
            ex = X.Extracted(exc.rel, exc.header, exc.body, exc.line, exc.end_line)
            X.apply_rules(ex, [X.Rule('using namespace', r'\busing\s+namespace\s+[\w:]+\s*;', ''),
                               X.Rule('has_facet<error_handler>', r'Policy::template\s+has_facet<policy::error_handler>', '1', 1, 1),
                               X.Rule('Error error;', r'\bError\s+error\s*;', 'static_offset_error error;', 1, 1),
                               X.Rule('static_type<method>()', r'Policy::template\s+static_type<method>\(\)', 'YV_METHOD_TYPE_ID', 1, 1),
                               X.Rule('Policy::error(error_type(std::move(error)))', r'Policy::error\(error_type\(std::move\(error\)\)\)\s*;',
                                      'policy_error_offset(%s, &error);' % kind, 1, 1),
                               X.Rule('this->slots_strides', r'this->slots_strides\b', 'slots_strides'),
                               X.Rule('abort()', r'\babort\(\)\s*;', 'yv_abort();', 1, 1)] + X.COMMON_RULES)
            out.append('static inline void check_static_offset_%s(size_t actual, size_t expected)\n{\n%s\n}\n' % (nm, ex.body))
        # prototypes then bodies
        protos, bodies = [], []
        for key in self.order:
            fn, va, pos = key
            ex, body = self.done[key]
            if fn == 'resolve':
                sig = 'uintptr_t resolve_shape(%s)' % self.params(0)
            else:
                extra = 'const uintptr_t *dispatch, ' if fn == 'resolve_multi_next' else ''
                sig = 'static uintptr_t %s(%s%s)' % (self.cname(fn, va, pos), extra, self.params(pos))
                protos.append(sig + ';')
            bodies.append((fn, sig, body))
        text = '\n'.join(out) + '\n' + '\n'.join(protos) + '\n'
        for fn, sig, body in bodies:
            if fn == 'resolve':
                continue
            text += '%s\n{\n%s\n}\n' % (sig, body)
        return text, [b for b in bodies if b[0] == 'resolve'][0]


def make_shape(shape, facets, templates):
    inst = Inst(shape, facets, templates)
    inst.instantiate('resolve', 0, 0)
    helpers, (fn, sig, body) = inst.emit()
    return inst, helpers, sig, body


def harness(shape, facets):
    """The layout invariant update() installs (I_layout, DESIGN.md section 5) as precondition, the table walk of
    the C01 statement as postcondition."""
    vpos = [i for i, k in enumerate(shape) if k in 'VP']
    arity = len(vpos)
    L = []
    L.append('void h_resolve(void)\n{')
    L.append('    __CPROVER_havoc_object(dispatch_data); __CPROVER_havoc_object(slots_strides);')
    L.append('    __CPROVER_havoc_object(static_slots); __CPROVER_havoc_object(static_strides);')
    L.append('    g_err_calls = 0;')
    # arguments
    for i, k in enumerate(shape):
        if k == 'V':
            L.append('    yv_obj o%d; o%d.position = %d; const yv_obj *arg_%d = &o%d;' % (i, i, i, i, i))
        elif k == 'P':
            L.append('    yv_virtual_ptr p%d; const yv_virtual_ptr *arg_%d = &p%d; const uintptr_t *cell%d;' % (i, i, i, i))
        else:
            L.append('    int n%d; const void *arg_%d = &n%d;' % (i, i, i))
    # v-table pointers: anywhere relative to dispatch data (biased by the first used slot), may alias
    for j, i in enumerate(vpos):
        L.append('    ptrdiff_t voff%d = nondet_ptrdiff(); __CPROVER_assume(voff%d >= -(ptrdiff_t)DD && voff%d <= (ptrdiff_t)DD);' % (j, j, j))
        L.append('    const uintptr_t *vt%d = &dispatch_data[0] + voff%d;' % (j, j))
        if shape[i] == 'V':
            L.append('    g_vptr_of_arg[%d] = vt%d;' % (i, j))
        else:
            L.append('    cell%d = vt%d; p%d.vptr = vt%d; p%d.ivptr = &cell%d; p%d.obj = 0;' % (i, j, i, j, i, i, i))
    # slots / strides as installed: slots first, then strides
    for j in range(arity):
        L.append('    size_t slot%d = slots_strides[%d];' % (j, j))
        if j >= 1:
            L.append('    size_t stride%d = slots_strides[%d + %d - 1];' % (j, arity, j))
    if facets['static']:
        # the generated static offsets: equal to the installed ones, or not (then the debug check must fire)
        L.append('    _Bool statics_ok = 1;')
        for j in range(arity):
            L.append('    if (static_slots[%d] != slot%d) statics_ok = 0;' % (j, j))
            if j >= 1:
                L.append('    if (static_strides[%d - 1] != stride%d) statics_ok = 0;' % (j, j))
        if not facets['checks']:
            L.append('    __CPROVER_assume(statics_ok);    /* release: the generated offsets are the installed ones (C12) */')
    # I_layout: the slot of each virtual argument lies inside the dispatch data
    for j in range(arity):
        L.append('    __CPROVER_assume(slot%d < DD && voff%d + (ptrdiff_t)slot%d >= 0 && voff%d + (ptrdiff_t)slot%d < (ptrdiff_t)DD);' % (j, j, j, j, j))
        L.append('    size_t i%d = (size_t)(voff%d + (ptrdiff_t)slot%d);' % (j, j, j))
    if arity == 1:
        L.append('    uintptr_t expected = dispatch_data[i0];')
    else:
        L.append('    size_t t0 = nondet_size_t(); __CPROVER_assume(t0 < DD);')
        L.append('    __CPROVER_assume(dispatch_data[i0] == (uintptr_t)&dispatch_data[t0]);   /* first slot: address of the group\'s row */')
        L.append('    size_t cellix = t0;')
        for j in range(1, arity):
            L.append('    size_t g%d = dispatch_data[i%d]; __CPROVER_assume(YV_MUL(g%d, stride%d) < DD);   /* offsets stay inside the data */' % (j, j, j, j))
            L.append('    cellix = cellix + YV_MUL(g%d, stride%d);' % (j, j))
        L.append('    __CPROVER_assume(cellix < DD);                                          /* the cell belongs to the method\'s table */')
        L.append('    uintptr_t expected = dispatch_data[cellix];')
    L.append('    /* frame, at a Skolem word of the dispatch data and a Skolem slot/stride entry */')
    L.append('    size_t kd = nondet_size_t(), ks = nondet_size_t(); __CPROVER_assume(kd < DD && ks < 2 * MAX_ARITY - 1);')
    L.append('    uintptr_t dd0 = dispatch_data[kd]; size_t ss0 = slots_strides[ks];')
    L.append('    uintptr_t r = resolve_shape(%s);' % ', '.join('arg_%d' % i for i in range(len(shape))))
    L.append('    __CPROVER_assert(r == expected, "C01 resolve returns the cell selected by the groups of exactly the virtual arguments, whatever their positions");')
    if facets['static'] and facets['checks']:
        L.append('    __CPROVER_assert(statics_ok, "C12 the debug check rejects static offsets that differ from the installed ones (resolve must not return)");')
    L.append('    __CPROVER_assert(g_err_calls == 0, "no error is reported on a legal call");')
    L.append('    __CPROVER_assert(dispatch_data[kd] == dd0, "C16 dispatch data is only read");')
    L.append('    __CPROVER_assert(slots_strides[ks] == ss0, "C16 slots and strides are only read");')
    L.append('    YV_COVER(1, "a legal call returns");')
    if arity > 1:
        L.append('    YV_COVER(cellix != t0 && cellix > 40, "a cell away from the row start");')
    if facets['static'] and facets['checks']:
        L.append('    YV_COVER(statics_ok, "correct static offsets accepted");')
    L.append('}')
    return '\n'.join(L) + '\n'


def at_abort(shape, facets):
    if facets['static'] and facets['checks']:
        return ('#define YV_AT_ABORT __CPROVER_assert(g_err_calls == 1 && (g_err_kind == YV_ERR_STATIC_SLOT || g_err_kind == YV_ERR_STATIC_STRIDE), '
                '"C12 a static offset mismatch is reported as a static slot / stride error before aborting"); '
                '__CPROVER_assert(!g_statics_ok_ghost, "C12 the debug check accepts correctly generated offsets (abort only on a real mismatch)")\n')
    return '#define YV_AT_ABORT __CPROVER_assert(0, "resolve never aborts on a legal call")\n'


def shapes(maxlen, maxvirt):
    out = []
    for n in range(1, maxlen + 1):
        for s in itertools.product('VPN', repeat=n):
            v = sum(1 for k in s if k in 'VP')
            if 1 <= v <= maxvirt:
                out.append(''.join(s))
    return out


def jobs(tier):
    t = get_templates()
    out = []
    if tier == 'thorough':
        shp = shapes(5, 4)
    else:
        shp = shapes(4, 3)
    configs = []
    for s in shp:
        has_p = 'P' in s
        for ind in ((0, 1) if has_p else (0,)):
            configs.append((s, {'static': False, 'checks': False, 'indirect': bool(ind)}))
    # static offsets: a representative subset of shapes (all arities, N before / between / after)
    for s in [x for x in shp if 'P' not in x and len(x) <= (5 if tier == 'thorough' else 4)]:
        configs.append((s, {'static': True, 'checks': True, 'indirect': False}))
        configs.append((s, {'static': True, 'checks': False, 'indirect': False}))
    for s in [x for x in shp if 'P' in x and len(x) <= (4 if tier == 'thorough' else 3)]:
        configs.append((s, {'static': True, 'checks': True, 'indirect': False}))
    fdesc = ['%s method::%s sha256:%s' % (t[k].where(), k, t[k].sha()) for k in
             ('resolve', 'resolve_uni', 'resolve_multi_first', 'resolve_multi_next', 'vptr', 'check_static_offset')]
    # C16: the call path only reads shared state - syntactic frame of the templates themselves
    for k in ('resolve', 'resolve_uni', 'resolve_multi_first', 'resolve_multi_next', 'vptr'):
        # parameters passed by value (pointers included) are locals; reference parameters are not
        hdr = X.norm_ws(t[k].header)
        plist = hdr[hdr.rfind('(') + 1:hdr.rfind(')')]
        prm = [m.group(1) for m in re.finditer(r'(\w+)\s*(?:,|$)', plist) if '&' not in plist[max(0, plist.rfind(',', 0, m.start()) + 1):m.start()]]
        bad = X.nonlocal_assignments(t[k].body, prm)
        if bad:
            out.append(syntactic_frame_job('resolve', 'frame-%s' % k, 'method::' + k, bad, ['C16', 'C01'], fdesc))
    if any(j.config.startswith('frame-') for j in out):
        return out          # the shape jobs assume the templates' read-only structure
    for s, f in configs:
        name = '%s-static%d-checks%d-indirect%d' % (s, f['static'], f['checks'], f['indirect'])
        try:
            inst, helpers, sig, body = make_shape(s, f, t)
            broken = None
        except X.ExtractionBroken as e:
            broken = str(e)
        if broken:
            j = Job(unit='resolve', config=name, c_text='', entry='none', props=['C01', 'C04', 'C12', 'C16'])
            j.broken = 'shape %s cannot be instantiated by the partial evaluator: %s' % (s, broken)
            out.append(j)
            continue
        ghost_ok = ''
        c = (at_abort(s, f) + '_Bool g_statics_ok_ghost;\n' + PRELUDE + helpers + '\n' + sig + '\n{\n' + body + '\n}\n' +
             'ptrdiff_t nondet_ptrdiff(void);\n' + harness(s, f))
        if f['static'] and f['checks']:
            c = c.replace('    /* frame, at a Skolem word', '    g_statics_ok_ghost = statics_ok;\n    /* frame, at a Skolem word')
        props = ['C01', 'C04', 'C16'] + (['C12'] if f['static'] else []) + (['C09'] if 'P' in s else [])
        out.append(Job(unit='resolve', config=name, c_text=c, entry='h_resolve', kind='proof', unwind=DD_UNWIND,
                       defines=['YV_FACET_INDIRECT=%d' % int(f['indirect'])], min_obligations=10, min_cover=1,
                       functions=fdesc,
                       trusted=['partial evaluator for the resolve templates (units/resolve.py): if constexpr conditions evaluated per shape / facet set, '
                                'pack recursion unfolded into one C function per instantiation, bodies otherwise verbatim',
                                'Policy::dynamic_vptr(arg) replaced by its contract (units/vptrs): the v-table pointer published for the argument\'s dynamic class',
                                'virtual_ptr::_vptr() as the embedded pointer (direct) or its dereference (indirect)',
                                'integer->pointer cast through the checked WORD_TO_PTR shim (DESIGN.md 2.8)'],
                       assumptions=['I_layout (what update() installs, not under contract): each virtual argument\'s v-table pointer plus its slot lies inside the '
                                    'dispatch data; the first slot holds the address of a row, later slots hold group indexes; the selected cell lies inside the data',
                                    'dispatch data <= 128 words (object-size bound; the walk itself is loop-free); group index x stride treated as an arbitrary binary function'],
                       extracted=[inst.done[k][0] for k in inst.order][:6], props=props, timeout=300,
                       replay=(lambda job, res, ob, s=s: R.run_generated_program('dispatch_%s' % s, R.shape_dispatch_program(s), {'shape': s}))
                       if not f['static'] and not f['indirect'] else None))
    return out


DD_UNWIND = 10
