"""compiler<Policy>::install_gv (compiler.hpp) - bounded.

install_gv sizes the policy's dispatch data, copies every multi-method's
dispatch table and every class's v-table into it, installs each class's biased
static v-table pointer and each method's slots-then-strides array.  Its
postcondition is the layout invariant I_layout that the resolve proofs
(units/resolve.py) take as precondition:

  * every write stays inside the dispatch data as sized here (C04);
  * slots_strides = all slots, then all strides (C12's layout);
  * for class c and v-table entry k: the word at *static_vptr(c) + first_slot + k is
      the definition's pf                         (uni-method),
      the address of row `group` of the method's installed table  (first virtual parameter),
      the group index                             (later virtual parameters);
  * every class's static v-table pointer and every method's array is rewritten
    by every update (nothing is carried over - C07).
"""
import re

from engine import extract as X
from engine.core import Job

REL = 'include/yorel/yomm2/detail/compiler.hpp'

TEXT = r'''
#include "yv.h"
#define NMETH 2
#define NCLASS 3
#define NVT 3            /* v-table entries per class */
#define NDT 4            /* cells per dispatch table */
#define MAXAR 3
#define DDCAP 32
typedef struct { uintptr_t pf; } cdef;
typedef struct { size_t *slots_strides_ptr; size_t arity_; } method_info;
#define METHOD_INFO_ARITY(mi) ((mi)->arity_)
typedef struct { size_t data[MAXAR]; size_t n; } vec_size;
typedef struct { const cdef *data[NDT]; size_t n; } vec_cdefp;
typedef struct { size_t method_index, vp_index, group_index; } vtbl_entry;
typedef struct { vtbl_entry data[NVT]; size_t n; } vec_entry;
typedef struct cmethod { method_info *info; vec_size vp, slots, strides; vec_cdefp dispatch_table; const uintptr_t *gv_dispatch_table; } cmethod;
typedef struct cclass { size_t first_slot; vec_entry vtbl; uintptr_t **static_vptr; } cclass;
typedef struct { cmethod *data; size_t n; } vec_method;
typedef struct { cclass *data; size_t n; } vec_cclass;
vec_method methods; vec_cclass classes;
/* Policy::dispatch_data : std::vector<uintptr_t> */
typedef struct { uintptr_t *data; size_t n; } vec_word;
uintptr_t g_dd[DDCAP]; vec_word dispatch_data;
size_t g_resizes;
static void vec_word_resize(vec_word *v, size_t n)
{
    __CPROVER_assert(n <= DDCAP, "harness capacity of the dispatch data");
    ++g_resizes; v->data = g_dd; v->n = n;     /* may reallocate: old contents are not relied upon */
}
static size_t *yv_copy_sizes(const size_t *first, const size_t *last, size_t *dst)
{
    for (; first != last; ++first, ++dst) *dst = *first;      /* [alg.copy] */
    return dst;
}
size_t g_publish_calls; cclass *g_pub_first, *g_pub_last;
static void policy_publish_vptrs(cclass *first, cclass *last) { ++g_publish_calls; g_pub_first = first; g_pub_last = last; }
#define BOOST_ASSERT(c) __CPROVER_assert(c, "C04 BOOST_ASSERT in install_gv (holds in release builds too)")

void install_gv(void)
{
@BODY@
#undef method
}

cmethod g_m[NMETH]; method_info g_mi[NMETH]; size_t g_ss[NMETH][2 * MAXAR]; cdef g_defs[8];
cclass g_c[NCLASS]; uintptr_t *g_svp[NCLASS];
size_t w_nm, w_nc;
void h_install_gv(void)
{
    /* one concrete registry shape per job (CFG_* macros): sizes are constants, contents are arbitrary */
    static const size_t cfg_ar[NMETH] = {CFG_AR0, CFG_AR1}, cfg_dt[NMETH] = {CFG_DT0, CFG_DT1};
    static const size_t cfg_vt[NCLASS] = {CFG_VT0, CFG_VT1, CFG_VT2}, cfg_fs[NCLASS] = {CFG_FS0, CFG_FS1, CFG_FS2};
    size_t nm = CFG_NM, nc = CFG_NC;
    w_nm = nm; w_nc = nc;
    methods.data = g_m; methods.n = nm; classes.data = g_c; classes.n = nc;
    dispatch_data.data = g_dd; dispatch_data.n = nondet_size_t();      /* whatever an earlier update left */
    __CPROVER_assume(dispatch_data.n <= DDCAP);
    __CPROVER_havoc_object(g_dd); __CPROVER_havoc_object(g_defs);
    for (size_t m = 0; m < NMETH; ++m) {
        size_t ar = cfg_ar[m];
        g_m[m].info = &g_mi[m]; g_mi[m].arity_ = ar; g_mi[m].slots_strides_ptr = g_ss[m];
        g_m[m].vp.n = ar; g_m[m].slots.n = ar; g_m[m].strides.n = ar - 1;
        for (size_t k = 0; k < MAXAR; ++k) { g_m[m].slots.data[k] = nondet_size_t(); g_m[m].strides.data[k] = nondet_size_t(); }
        for (size_t k = 0; k < 2 * MAXAR; ++k) g_ss[m][k] = nondet_size_t();          /* stale values of an earlier update */
        size_t dn = cfg_dt[m];
        g_m[m].dispatch_table.n = dn;
        for (size_t k = 0; k < NDT; ++k) { size_t d = nondet_size_t(); __CPROVER_assume(d < 8); g_m[m].dispatch_table.data[k] = &g_defs[d]; }
        g_m[m].gv_dispatch_table = (const uintptr_t *)0;
    }
    for (size_t c = 0; c < NCLASS; ++c) {
        g_c[c].static_vptr = &g_svp[c]; g_svp[c] = (uintptr_t *)nondet_uintptr();   /* stale */
        size_t vn = cfg_vt[c];
        g_c[c].vtbl.n = vn;
        g_c[c].first_slot = cfg_fs[c];
        for (size_t k = 0; k < NVT; ++k) {
            vtbl_entry e; e.method_index = nondet_size_t(); e.vp_index = nondet_size_t(); e.group_index = nondet_size_t();
            /* what build_dispatch_tables writes: an entry names a method, one of its virtual parameters and a group of that parameter */
            __CPROVER_assume(e.method_index < nm || nm == 0);
            if (nm > 0) {
                __CPROVER_assume(e.vp_index < g_mi[e.method_index < NMETH ? e.method_index : 0].arity_);
                __CPROVER_assume(e.group_index < g_m[e.method_index < NMETH ? e.method_index : 0].dispatch_table.n);
            }
            g_c[c].vtbl.data[k] = e;
        }
        if (nm == 0) __CPROVER_assume(vn == 0);
    }
    g_resizes = 0; g_publish_calls = 0;

    install_gv();
    YV_COVER(1, "install_gv returns");

    /* size = all dispatch tables + all v-tables */
    size_t expect = 0;
    for (size_t m = 0; m < NMETH; ++m) if (m < nm) expect += g_m[m].dispatch_table.n;
    for (size_t c = 0; c < NCLASS; ++c) if (c < nc) expect += g_c[c].vtbl.n;
    __CPROVER_assert(g_resizes == 1 && dispatch_data.n == expect, "C04 the dispatch data is sized once, to hold every table and every v-table");
    /* methods */
    size_t pos = 0;
    for (size_t m = 0; m < NMETH; ++m) {
        if (m >= nm) continue;
        size_t ar = g_mi[m].arity_;
        if (ar == 1) {
            __CPROVER_assert(g_ss[m][0] == g_m[m].slots.data[0], "C12/C07 uni-method: the slot is (re)installed");
        } else {
            for (size_t k = 0; k < MAXAR; ++k) {
                if (k < ar) __CPROVER_assert(g_ss[m][k] == g_m[m].slots.data[k], "C12/C07 multi-method: slots first, in parameter order");
                if (k + 1 < ar) __CPROVER_assert(g_ss[m][ar + k] == g_m[m].strides.data[k], "C12/C07 multi-method: then the strides");
            }
            __CPROVER_assert(g_m[m].gv_dispatch_table == &g_dd[pos], "C01 the method's table is installed right after the previous one");
            for (size_t k = 0; k < NDT; ++k)
                if (k < g_m[m].dispatch_table.n) __CPROVER_assert(g_dd[pos + k] == g_m[m].dispatch_table.data[k]->pf, "C01 cell k of the installed table is the function of the k-th dispatch cell");
            pos += g_m[m].dispatch_table.n;
        }
    }
    /* classes */
    for (size_t c = 0; c < NCLASS; ++c) {
        if (c >= nc) continue;
        __CPROVER_assert(g_svp[c] == &g_dd[pos] - g_c[c].first_slot, "C04/C07 the class's static v-table pointer is (re)installed, biased by its first slot");
        for (size_t k = 0; k < NVT; ++k) {
            if (k >= g_c[c].vtbl.n) continue;
            const vtbl_entry *e = &g_c[c].vtbl.data[k];
            const cmethod *mm = &g_m[e->method_index];
            uintptr_t word = g_svp[c][g_c[c].first_slot + k];
            __CPROVER_assert(&g_svp[c][g_c[c].first_slot + k] == &g_dd[pos + k] && pos + k < dispatch_data.n, "C04 the cell lies inside the dispatch data");
            if (g_mi[e->method_index].arity_ == 1)
                __CPROVER_assert(word == mm->dispatch_table.data[e->group_index]->pf, "C01 uni-method cell: the definition selected for this class");
            else if (e->vp_index == 0)
                __CPROVER_assert(word == (uintptr_t)(mm->gv_dispatch_table + e->group_index), "C01 first virtual parameter: address of the group's row in the installed table");
            else
                __CPROVER_assert(word == e->group_index, "C01 later virtual parameter: the group index");
        }
        pos += g_c[c].vtbl.n;
    }
    __CPROVER_assert(pos <= dispatch_data.n, "everything fits");
    __CPROVER_assert(g_publish_calls == 1 && g_pub_first == g_c && g_pub_last == g_c + nc, "the v-table pointers of all classes are published afterwards");

}
'''


def accumulate_rule(ex, body):
    """[auto] x = std::accumulate(V.begin(), V.end(), init, [](auto sum, auto& e) { return E; });  ->  its defining loop ([accumulate])"""
    rx = re.compile(r'(auto\s+)?(\w+)\s*=\s*std::accumulate\(\s*(\w+)\.begin\(\),\s*\3\.end\(\),\s*([^,]+?),\s*\[\]\(auto\s+(\w+),\s*auto&\s*(\w+)\)\s*\{\s*return\s+([^;]+);\s*\}\s*\)\s*;')
    n = [0]

    def rep(m):
        n[0] += 1
        decl, x, v, init, acc, e, expr = m.groups()
        expr = re.sub(r'\b%s\b' % e, '(*yv_x)', expr)
        expr = re.sub(r'\b%s\b' % acc, 'yv_acc', expr)
        return ('%s{ size_t yv_acc = %s; for (size_t yv_k = 0; yv_k < VEC_SIZE(%s); ++yv_k) { __typeof__(&%s.data[0]) yv_x = &%s.data[yv_k]; '
                'yv_acc = %s; } %s = yv_acc; }' % ('size_t %s; ' % x if decl else '', init, v, v, v, expr, x))
    body = rx.sub(rep, body)
    ex.rules_fired.append(('std::accumulate with a lambda -> loop', n[0]))
    if n[0] != 2:
        raise X.ExtractionBroken('install_gv: %d std::accumulate statements (expected 2)' % n[0])
    return body


RULES = [
    X.drop_trace,
    X.Rule('using namespace', r'\busing\s+namespace\s+[\w:]+\s*;', ''),
    X.Rule('std::size_t(0)', r'std::size_t\((\w+)\)', r'((size_t)(\1))'),
    accumulate_rule,
    X.eval_if_constexpr(lambda c: True if c.replace(' ', '') == 'has_facet<Policy,external_vptr>' else None, 1),
    X.Rule('Policy::dispatch_data.resize', r'Policy::dispatch_data\.resize\(', 'vec_word_resize(&dispatch_data, ', 1, 1),
    X.Rule('Policy::dispatch_data.data()', r'Policy::dispatch_data\.data\(\)', 'dispatch_data.data', 1, 1),
    X.Rule('Policy::dispatch_data.size()', r'Policy::dispatch_data\.size\(\)', 'dispatch_data.n', 1, 1),
    X.Rule('Policy::publish_vptrs(begin, end)', r'Policy::publish_vptrs\(\s*classes\.begin\(\),\s*classes\.end\(\)\s*\)', 'policy_publish_vptrs(VEC_BEGIN(classes), VEC_END(classes))', 1, 1),
    X.range_for_by_ref('__typeof__(YV_ELEM)', 3),
    X.Rule('auto& method = methods[i]', r'auto&\s+method\s*=\s*methods\[([^\]]+)\]\s*;', r'cmethod *const method_p = &methods.data[\1];\n#define method (*method_p)', 1, 1),
    X.Rule('info->arity()', r'(\w+)\.info->arity\(\)', r'METHOD_INFO_ARITY(\1.info)'),
    X.Rule('method.arity()', r'\bmethod\.arity\(\)', 'VEC_SIZE(method.vp)'),
    X.Rule('std::copy(slots)', r'std::copy\(\s*m\.slots\.begin\(\),\s*m\.slots\.end\(\),\s*', 'yv_copy_sizes(VEC_BEGIN(m.slots), VEC_END(m.slots), ', 1, 1),
    X.Rule('std::copy(strides)', r'std::copy\(\s*m\.strides\.begin\(\),\s*m\.strides\.end\(\),\s*', 'yv_copy_sizes(VEC_BEGIN(m.strides), VEC_END(m.strides), ', 1, 1),
    X.Rule('x = std::transform(dispatch_table -> pf)',
           r'(\w+)\s*=\s*std::transform\(\s*m\.dispatch_table\.begin\(\),\s*m\.dispatch_table\.end\(\),\s*(\w+),\s*\[\]\(auto\s+(\w+)\)\s*\{\s*return\s+\3->pf;\s*\}\s*\)\s*;',
           r'{ uintptr_t *yv_o = \2; for (size_t yv_k = 0; yv_k < VEC_SIZE(m.dispatch_table); ++yv_k) *yv_o++ = m.dispatch_table.data[yv_k]->pf; \1 = yv_o; }', 1, 1),
    X.Rule('m.slots[0]', r'\bm\.slots\[(\w+)\]', r'm.slots.data[\1]'),
    X.Rule('dispatch_table[i]', r'\bmethod\.dispatch_table\[([^\]]+)\]', r'method.dispatch_table.data[\1]'),
    X.Rule('dispatch_table.size()', r'\.dispatch_table\.size\(\)', r'.dispatch_table.n'),
    X.Rule('vtbl.size()', r'\.vtbl\.size\(\)', r'.vtbl.n'),
    X.Rule('std::uintptr_t(e)', r'std::uintptr_t\(', '(uintptr_t)('),
    X.split_auto_declarators,
] + X.COMMON_RULES


def jobs(tier):
    ex = X.find_function(REL, r'template<class Policy>\s*void\s+compiler<Policy>::install_gv\(\)')
    X.apply_rules(ex, RULES)
    body = ex.body
    body = body.replace('__typeof__(YV_ELEM) *const m_p', 'cmethod *const m_p')
    body = body.replace('__typeof__(YV_ELEM) *const cls_p', 'cclass *const cls_p')
    body = body.replace('__typeof__(YV_ELEM) *const entry_p', 'vtbl_entry *const entry_p')
    left = re.sub(r'__auto_type|__typeof__', '', body)
    if re.search(r'\bauto\b|std::|Policy::|YV_ELEM|\[\]\s*\(', left):
        raise X.ExtractionBroken('install_gv: untranslated C++ left: %s' % re.findall(r'[^\n]*(?:\bauto\b|std::|Policy::|YV_ELEM)[^\n]*', left)[:2])
    c = TEXT.replace('@BODY@', body)
    # (methods, arities, table sizes, classes, v-table sizes, first slots)
    layouts = [
        (0, (1, 1), (1, 1), 2, (0, 0, 0), (0, 0, 0)),
        (1, (1, 1), (2, 1), 2, (1, 1, 0), (0, 0, 0)),
        (1, (2, 1), (4, 1), 3, (2, 2, 1), (0, 0, 1)),
        (2, (1, 2), (3, 4), 3, (2, 3, 0), (0, 1, 0)),
        (2, (3, 1), (4, 2), 3, (3, 1, 3), (0, 3, 1)),
        (2, (2, 2), (2, 4), 2, (3, 2, 0), (2, 0, 0)),
        (2, (3, 3), (4, 4), 3, (3, 3, 3), (4, 0, 2)),
    ]
    if tier == 'thorough':
        layouts += [(2, (a0, a1), (d0, d1), 3, v, f) for a0 in (1, 2, 3) for a1 in (1, 3) for d0 in (1, 4) for d1 in (2,)
                    for v in ((0, 3, 2), (3, 0, 1)) for f in ((0, 0, 0), (1, 4, 2))
                    if not (a0 == 3 and a1 == 1 and d0 == 4 and v == (0, 3, 2))]     # the reachability (cover) run of these two shapes does not finish in 25 min
    out = []
    for (nm, ar, dt, nc, vt, fs) in layouts:
        defs = ['CFG_NM=%d' % nm, 'CFG_AR0=%d' % ar[0], 'CFG_AR1=%d' % ar[1], 'CFG_DT0=%d' % dt[0], 'CFG_DT1=%d' % dt[1], 'CFG_NC=%d' % nc,
                'CFG_VT0=%d' % vt[0], 'CFG_VT1=%d' % vt[1], 'CFG_VT2=%d' % vt[2], 'CFG_FS0=%d' % fs[0], 'CFG_FS1=%d' % fs[1], 'CFG_FS2=%d' % fs[2]]
        name = 'm%d-ar%d%d-dt%d%d-c%d-vt%d%d%d-fs%d%d%d' % ((nm,) + ar + dt + (nc,) + vt + fs)
        out.append(Job(unit='install', config=name, c_text=c, entry='h_install_gv', kind='bounded', unwind=8, object_bits=10, defines=defs,
                bound='install_gv: one concrete registry shape per job (<= 2 methods of arity 1..3 with <= 4 dispatch cells, <= 3 classes with <= 3 v-table entries, '
                      'first slot <= 4); entries, function addresses and all prior contents (dispatch data, static v-table pointers, slots-strides arrays) arbitrary',
                min_obligations=10, min_cover=1,
                functions=['%s compiler<Policy>::install_gv sha256:%s' % (ex.where(), ex.sha())],
                trusted=['std::vector<uintptr_t>::resize / data / size (contents after resize are not relied upon); std::accumulate, std::copy, std::transform as their defining loops',
                         'range-for over the method / class / v-table vectors as index loops; Policy::publish_vptrs as a logging stub (units/vptrs proves it)'],
                assumptions=['v-table entries name an existing method, one of its virtual parameters and a group below its table size (what build_dispatch_tables writes; not under contract)',
                             'pointer arithmetic before the start of the dispatch data (static vptr biased by first_slot) is taken as the implementation defines it'],
                extracted=[ex], props=['C01', 'C04', 'C07', 'C12', 'C13'], timeout=300 if tier != 'thorough' else 600))
    return out
