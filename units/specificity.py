"""compiler<Policy>::is_more_specific and ::is_base  (compiler.hpp) under contract.

Postconditions are the statement of C01 ("at no virtual position a proper base
of the other's class, at one position at least a proper derived class") and of
C03 ("strictly more general"), written quantifier-free over the 16 possible
positions (arity <= 16 = resolution_error::max_types is an object-size bound
for __CPROVER_is_fresh, the loop itself is closed by an invariant).
The class universe is all of size_t and `cov` is an uninterpreted relation.
"""
import re

from engine import extract as X
from engine.core import Job
from engine import replay as R

REL = 'include/yorel/yomm2/detail/compiler.hpp'

PRELUDE = r'''
#include "yv.h"
#define A_(k) (a->vp.data[k])
#define B_(k) (b->vp.data[k])
#define VALID_DEFS(a, b) \
    (__CPROVER_is_fresh(a, sizeof(*a)) && __CPROVER_is_fresh(b, sizeof(*b)) && \
     a->vp.n == b->vp.n && a->vp.n <= YV_MAX_ARITY && \
     __CPROVER_is_fresh(a->vp.data, sizeof(class_ref) * YV_MAX_ARITY) && \
     __CPROVER_is_fresh(b->vp.data, sizeof(class_ref) * YV_MAX_ARITY))
#define OFF(p) ((size_t)__CPROVER_POINTER_OFFSET(p))
#define ITER_INV \
    __CPROVER_loop_invariant(__CPROVER_same_object(a_iter, a->vp.data) && \
                             __CPROVER_same_object(b_iter, b->vp.data)) \
    __CPROVER_loop_invariant(OFF(a_iter) == OFF(b_iter) && \
                             OFF(a_iter) <= g_n * sizeof(class_ref) && \
                             OFF(a_iter) % sizeof(class_ref) == 0) \
    __CPROVER_loop_invariant(a_last == a->vp.data + g_n)
#define BELOW(k) ((k) * sizeof(class_ref) < OFF(a_iter))

/* Ghost state: the inputs as the function sees them on entry.  Written once by
 * the ghost block woven at the top of the body; the postcondition is stated
 * over it (one evaluation of each cov fact keeps the formula small) and the
 * replay driver reads it from the counterexample.  These ghost globals are the
 * only locations the contract allows the function to assign. */
#ifdef YV_CBMC
size_t g_n;
class_ref g_a[YV_MAX_ARITY], g_b[YV_MAX_ARITY];
_Bool g_cab[YV_MAX_ARITY];   /* cov(a_k, b_k): b_k is a_k or derives from it */
_Bool g_cba[YV_MAX_ARITY];   /* cov(b_k, a_k): a_k is b_k or derives from it */
#define GHOST_FRAME __CPROVER_assigns(g_n, __CPROVER_object_whole(g_a), __CPROVER_object_whole(g_b), \
                                      __CPROVER_object_whole(g_cab), __CPROVER_object_whole(g_cba))
#define W1(k) g_a[k] = k < g_n ? A_(k) : 0; g_b[k] = k < g_n ? B_(k) : 0; \
              g_cab[k] = COV(g_a[k], g_b[k]); g_cba[k] = COV(g_b[k], g_a[k]);
#define WITNESSES g_n = a->vp.n; YV_REP16(W1)
/* a's class at k is a proper base of b's  /  a proper derived class of b's */
#define PROPER_BASE(k)    (k < g_n && g_a[k] != g_b[k] && g_cab[k])
#define PROPER_DERIVED(k) (k < g_n && g_a[k] != g_b[k] && g_cba[k])
#endif
'''

# ---------------------------------------------------------------- is_more_specific
IMS_CONTRACT = r'''
__CPROVER_requires(VALID_DEFS(a, b))
GHOST_FRAME
/* C01: more specific <=> nowhere a proper base, somewhere a proper derived class */
#define X(k) || PROPER_BASE(k)
#define Y(k) || PROPER_DERIVED(k)
__CPROVER_ensures(__CPROVER_return_value ==
    (!(0 YV_REP16(X)) && (0 YV_REP16(Y))))
#undef X
#undef Y
'''

IMS_GHOST = r'''
#ifdef YV_CBMC
WITNESSES
/* precondition: the class graph is acyclic - two distinct classes are never
   each other's base (antisymmetry of cov, at the compared pairs) */
#define X(k) __CPROVER_assume(!(k < g_n && g_a[k] != g_b[k] && g_cab[k] && g_cba[k]));
YV_REP16(X)
#undef X
#endif
'''

IMS_LOOP = r'''
__CPROVER_assigns(a_iter, b_iter, result)
ITER_INV
#define X(k) || (PROPER_DERIVED(k) && BELOW(k))
#define Y(k) && !(PROPER_BASE(k) && BELOW(k))
__CPROVER_loop_invariant(result == (0 YV_REP16(X)))
__CPROVER_loop_invariant(1 YV_REP16(Y))
#undef X
#undef Y
__CPROVER_decreases(g_n * sizeof(class_ref) - OFF(a_iter))
'''

# ---------------------------------------------------------------- is_base
ISB_CONTRACT = r'''
__CPROVER_requires(VALID_DEFS(a, b))
GHOST_FRAME
/* C03: a is strictly more general than b <=> everywhere b's class or a base of
   it, and somewhere different */
#define X(k) && (!(k < g_n) || g_a[k] == g_b[k] || g_cab[k])
#define Y(k) || (k < g_n && g_a[k] != g_b[k])
__CPROVER_ensures(__CPROVER_return_value ==
    ((1 YV_REP16(X)) && (0 YV_REP16(Y))))
#undef X
#undef Y
'''

ISB_GHOST = r'''
#ifdef YV_CBMC
WITNESSES
#endif
'''

ISB_LOOP = r'''
__CPROVER_assigns(a_iter, b_iter, result)
ITER_INV
#define X(k) || (k < g_n && g_a[k] != g_b[k] && BELOW(k))
#define Y(k) && (!(k < g_n) || g_a[k] == g_b[k] || g_cab[k] || !BELOW(k))
__CPROVER_loop_invariant(result == (0 YV_REP16(X)))
__CPROVER_loop_invariant(1 YV_REP16(Y))
#undef X
#undef Y
__CPROVER_decreases(g_n * sizeof(class_ref) - OFF(a_iter))
'''

HARNESS = r'''
#ifdef YV_CBMC
void h_%(fn)s(void)
{
    const definition *a, *b;
    bool r = %(fn)s(a, b);
    YV_COVER(r, "returns true");
    YV_COVER(!r, "returns false");
    YV_COVER(a->vp.n == 0, "arity 0");
    YV_COVER(a->vp.n == 16 && r, "arity 16 and true");
}
#endif
'''

BODY_RULES = [
    X.drop_trace,
    X.split_auto_declarators,
    X.Rule('vec.begin()', r'\b(\w+->vp)\.begin\(\)', r'VEC_BEGIN(\1)', 2, 2),
    X.Rule('vec.end()', r'\b(\w+->vp)\.end\(\)', r'VEC_END(\1)', 1, 1),
    # set membership:  (*o)->covariant_classes.find(x) != (*o)->covariant_classes.end()
    X.Rule('cov-member',
           r'\(\*(\w+)\)->covariant_classes\.find\(\s*(\*\w+)\s*\)\s*!=\s*'
           r'\(\*\1\)->covariant_classes\.end\(\)', r'COV(*\1, \2)'),
    X.Rule('cov-not-member',
           r'\(\*(\w+)\)->covariant_classes\.find\(\s*(\*\w+)\s*\)\s*==\s*'
           r'\(\*\1\)->covariant_classes\.end\(\)', r'!COV(*\1, \2)'),
] + X.COMMON_RULES


def c_header(ex, fn):
    h = X.norm_ws(ex.header)
    h = re.sub(r'^template\s*<\s*class\s+Policy\s*>\s*', '', h)
    h, n = re.subn(r'compiler<Policy>::' + fn + r'\b', fn, h)
    if n != 1 or '<' in h or '&' in h:
        raise X.ExtractionBroken('unexpected signature of %s: %s' % (fn, h))
    return h


def make(fn, contract, ghost, loop):
    ex = X.find_function(REL, r'template<class Policy>\s*bool\s+compiler<Policy>::' + fn + r'\s*\([^)]*\)')
    hdr = c_header(ex, fn)
    X.apply_rules(ex, BODY_RULES)
    if 'covariant_classes' in ex.body or 'auto' in re.sub(r'__auto_type', '', ex.body):
        raise X.ExtractionBroken('%s: untranslated C++ left in body' % fn)
    X.weave(ex, loops={0: loop}, at_start=ghost, expect_loops=1)
    c = PRELUDE + '\n' + hdr + '\n' + contract + '{\n' + ex.body + '\n}\n' + HARNESS % {'fn': fn}
    return ex, c


def replay_factory(fn):
    def replay(job, res, ob):
        tr = res.traces.get(ob['name'])
        if not tr:
            return {'reproduced': None, 'detail': 'verifier gave no trace', 'input': None}
        vals = R.last_values(tr)
        n = R.as_int(vals.get('g_n'))
        if n is None or n > 16:
            return {'reproduced': None, 'detail': 'trace does not bind the arity', 'input': None}
        # a/b contents and cov facts come from the ghost arrays + dereferences
        inp = R.ims_input_from_trace(tr, n, fn)
        if inp is None:
            return {'reproduced': None, 'detail': 'trace does not bind the inputs', 'input': None}
        return R.run_real_driver('specificity', [fn], inp)
    return replay


TRUSTED = [
    'class_* abstracted to an opaque word (only ==, != and set membership are used); '
    'covariant_classes.find(x) != end() read as set membership cov(owner, x), an uninterpreted relation over all of size_t',
    'std::vector<class_*>::begin()/end() as data / data+n',
]


LEMMAS = r'''
#include "yv.h"
/* dom-lemmas: consequences of is_more_specific's postcondition that best()'s
 * harness assumes about the abstract relation dom.  Facts are arbitrary. */
#define SPEC_AB (!(0 YV_REP16(XB)) && (0 YV_REP16(XD)))
#define XB(k) || (k < n && a[k] != b[k] && cab[k])
#define XD(k) || (k < n && a[k] != b[k] && cba[k])
#define SPEC_BA (!(0 YV_REP16(YB)) && (0 YV_REP16(YD)))
#define YB(k) || (k < n && b[k] != a[k] && cba[k])
#define YD(k) || (k < n && b[k] != a[k] && cab[k])
void h_dom_lemmas(void)
{
    /* locals: unconstrained (globals would be zero-initialised = vacuous) */
    size_t n; class_ref a[YV_MAX_ARITY], b[YV_MAX_ARITY];
    _Bool cab[YV_MAX_ARITY], cba[YV_MAX_ARITY];    /* cov(a_k,b_k), cov(b_k,a_k) */
    __CPROVER_assume(n <= YV_MAX_ARITY);
    _Bool ab = SPEC_AB, ba = SPEC_BA;
    __CPROVER_assert(!(ab && ba), "asymmetric: never both more specific than each other");
    _Bool same = 1;
#define S(k) if (k < n && a[k] != b[k]) same = 0;
    YV_REP16(S)
    __CPROVER_assert(!same || !ab, "irreflexive: a definition is not more specific than one with the same classes");
    YV_COVER(ab, "a more specific than b");
    YV_COVER(!ab && !ba && !same, "incomparable");
}
'''


def jobs(tier):
    out = [Job(unit='specificity', config='dom-lemmas', c_text=LEMMAS, entry='h_dom_lemmas',
               kind='proof', min_obligations=2, min_cover=2, props=['C01', 'C02', 'C03', 'C06'],
               note='lemma over the postcondition of is_more_specific (no repository code)')]
    for fn, contract, ghost, loop, props, assume in (
            ('is_more_specific', IMS_CONTRACT, IMS_GHOST, IMS_LOOP,
             ['C01', 'C02', 'C03', 'C06', 'C16'],
             ['antisymmetry of the inheritance relation at the compared positions (acyclic class graph) is a precondition of is_more_specific']),
            ('is_base', ISB_CONTRACT, ISB_GHOST, ISB_LOOP, ['C03', 'C06'], [])):
        ex, c = make(fn, contract, ghost, loop)
        out.append(Job(
            unit='specificity', config=fn, c_text=c, entry='h_' + fn,
            enforce=fn, loop_contracts=True, kind='proof',
            min_obligations=100, min_loop_obligations=4, min_cover=4,
            functions=['%s compiler<Policy>::%s sha256:%s' % (ex.where(), fn, ex.sha())],
            trusted=TRUSTED,
            assumptions=assume + ['arity <= 16 (object-size bound for is_fresh; the loop is closed by invariant, not unwound)'],
            extracted=[ex], replay=replay_factory(fn), props=props,
            timeout=600, cex_unwind=17))
    return out
