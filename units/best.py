"""compiler<Policy>::best (compiler.hpp) - selection of the most specific
definitions among candidates.

is_more_specific is *replaced by its contract* (proved in units/specificity):
a pure function of its two arguments, abstracted to an uninterpreted relation
dom(i, j) over candidate indices; the only properties of dom that are assumed
(irreflexive, asymmetric) are proved from is_more_specific's postcondition by
the lemma job `dom-lemmas`.  dom is NOT assumed transitive: under multiple
inheritance it is not.

Postconditions, straight from C01 / C03 / C06:
  P1  |R| == 1  ==>  R[0] is more specific than every other candidate
  P2  some candidate d is more specific than every other  ==>  R == [d]
  P3  R empty <=> no candidates
  P4  R is a duplicate-free subset of the candidates
(P1-P3 make |R| in {0, 1, >1} and R[0] when |R| == 1 a function of the
candidate *set*: the order of the candidates cannot matter - C06.)

The two nested loops (the inner one erases while iterating) are unwound for
at most NC candidates: **bounded**, not a proof.
"""
import re

from engine import extract as X
from engine.core import Job
from engine import replay as R

REL = 'include/yorel/yomm2/detail/compiler.hpp'

PRELUDE = r'''
#include "yv_compiler.h"
#define definition cdefinition
#define YV_AT(v, it) (*(it))          /* *iter */
#define YV_FRONT(v) ((v).data[0])   /* v.front() */

definition g_defs[NC];          /* the candidates' pointees (contents irrelevant here) */
#define IN_ARENA(p) (__CPROVER_same_object((p), g_defs) && \
                     __CPROVER_POINTER_OFFSET(p) % sizeof(definition) == 0 && \
                     (size_t)__CPROVER_POINTER_OFFSET(p) < NC * sizeof(definition))
#define IDX(p) ((size_t)((p) - g_defs))

#ifdef YV_CBMC
_Bool __CPROVER_uninterpreted_dom(size_t i, size_t j);
#define DOM(i, j) __CPROVER_uninterpreted_dom((i), (j))
#else
extern _Bool yv_dom(size_t i, size_t j);
#define DOM(i, j) yv_dom((i), (j))
#endif

/* contract of compiler::is_more_specific as seen by best(): pure, total on
 * definitions, its value a function of the two definitions */
bool is_more_specific(const definition *a, const definition *b)
__CPROVER_requires(IN_ARENA(a) && IN_ARENA(b))
__CPROVER_assigns()
__CPROVER_ensures(__CPROVER_return_value == DOM(IDX(a), IDX(b)))
{
    /* contract stub: the body is the postcondition (the nested erase loops make
       the DFCC-instrumented formula ~6x slower than this equivalent stub) */
    __CPROVER_assert(IN_ARENA(a) && IN_ARENA(b), "is_more_specific precondition: both arguments are definitions");
    return DOM(IDX(a), IDX(b));
}

'''

HARNESS = r'''
#ifdef YV_CBMC
size_t g_nc;                    /* number of candidates */
size_t w_order[NC];             /* witness: candidate order (indices into g_defs) */
_Bool w_dom[NC][NC];            /* witness: the relation the verifier chose */
size_t w_rn; size_t w_r[NC + 1];

void h_best(void)
{
    vec_defp cands;
    size_t n = nondet_size_t();
    __CPROVER_assume(n <= NC);
    cands.n = n; g_nc = n;
    /* candidates are distinct definitions, in an arbitrary order */
    for (size_t i = 0; i < NC; ++i) {
        size_t ix = nondet_size_t();
        __CPROVER_assume(ix < NC);
        cands.data[i] = &g_defs[ix];
        w_order[i] = ix;
    }
    for (size_t i = 0; i < NC; ++i)
        for (size_t j = 0; j < NC; ++j)
            if (i < n && j < i) __CPROVER_assume(cands.data[i] != cands.data[j]);
    /* dom-lemmas (proved from is_more_specific's contract): irreflexive, asymmetric */
    for (size_t i = 0; i < NC; ++i)
        for (size_t j = 0; j < NC; ++j) {
            w_dom[i][j] = DOM(i, j);
            __CPROVER_assume(!(DOM(i, j) && DOM(j, i)));
        }

    vec_defp r = best(&cands);

    w_rn = r.n;
    for (size_t i = 0; i < NC + 1; ++i) w_r[i] = i < r.n ? IDX(r.data[i]) : 99;

    /* P4 subset, no duplicates */
    __CPROVER_assert(r.n <= n, "P4 |R| <= |C|");
    for (size_t i = 0; i < NC; ++i) {
        if (i < r.n) {
            _Bool found = 0;
            for (size_t j = 0; j < NC; ++j)
                if (j < n && cands.data[j] == r.data[i]) found = 1;
            __CPROVER_assert(found, "P4 every result is a candidate");
            for (size_t j = 0; j < NC; ++j)
                if (j < i) __CPROVER_assert(r.data[j] != r.data[i], "P4 results are distinct");
        }
    }
    /* P3 */
    __CPROVER_assert((r.n == 0) == (n == 0), "P3 result empty iff no candidate");
    /* P1 */
    if (r.n == 1) {
        for (size_t j = 0; j < NC; ++j)
            if (j < n && cands.data[j] != r.data[0])
                __CPROVER_assert(DOM(IDX(r.data[0]), IDX(cands.data[j])),
                    "P1 a single result is more specific than every other candidate");
    }
    /* P2 */
    for (size_t d = 0; d < NC; ++d) {
        if (d < n) {
            _Bool dominates_all = 1;
            for (size_t j = 0; j < NC; ++j)
                if (j < n && j != d && !DOM(IDX(cands.data[d]), IDX(cands.data[j]))) dominates_all = 0;
            if (dominates_all)
                __CPROVER_assert(r.n == 1 && r.data[0] == cands.data[d],
                    "P2 a candidate more specific than every other is the single result");
        }
    }
    YV_COVER(r.n == 0, "no candidates");
    YV_COVER(r.n == 1 && n == NC, "unique winner among NC");
    YV_COVER(r.n == 3, "three-way ambiguity");
    YV_COVER(r.n == 2 && n == NC, "ambiguity among NC");
}
#endif
'''

BODY_RULES = [
    X.drop_trace,
    X.vector_locals(r'const\s+definition\s*\*', 'vec_defp', 1),
    X.Rule('range-for over candidates',
           r'for\s*\(\s*auto\s+(\w+)\s*:\s*(\w+)\s*\)\s*\{',
           r'for (size_t yv_i_\1 = 0; yv_i_\1 < \2.n; ++yv_i_\1) { __auto_type \1 = \2.data[yv_i_\1];'),
    X.Rule('auto in for-init', r'for\s*\(\s*auto\s+(\w+)\s*=', r'for (__auto_type \1 ='),
    X.Rule('vec.begin()', r'\b(\w+)\.begin\(\)', r'VEC_BEGIN(\1)'),
    X.Rule('vec.end()', r'\b(\w+)\.end\(\)', r'VEC_END(\1)'),
    X.Rule('vec.erase', r'\b(\w+)\.erase\(', r'vec_defp_erase(&\1, '),
    X.Rule('vec.push_back', r'\b(\w+)\.push_back\(', r'vec_defp_push_back(&\1, '),
    X.Rule('vec.size()', r'\b(\w+)\.size\(\)', r'VEC_SIZE(\1)'),
    X.Rule('vec.front()', r'\b(\w+)\.front\(\)', r'YV_FRONT(\1)'),
    X.Rule('*iter', r'\*iter\b', 'YV_AT(best, iter)', 2),
] + X.COMMON_RULES


def make(nc):
    ex = X.find_function(
        REL, r'template<class Policy>\s*std::vector<const generic_compiler::definition\*>\s*'
             r'compiler<Policy>::best\s*\([^)]*\)')
    h = X.norm_ws(ex.header)
    m = re.search(r'best\s*\(\s*std::vector<const definition\*>&\s*(\w+)\s*\)$', h)
    if not m:
        raise X.ExtractionBroken('unexpected signature of best: ' + h)
    pname = m.group(1)
    X.apply_rules(ex, BODY_RULES)
    left = re.sub(r'__auto_type', '', ex.body)
    if re.search(r'\bauto\b|std::|\.begin|\.end\(', left):
        raise X.ExtractionBroken('best: untranslated C++ left in body')
    c = (PRELUDE + '\nvec_defp best(vec_defp *%s_p)\n{\n#define %s (*%s_p)\n' % (pname, pname, pname)
         + ex.body + '\n#undef %s\n}\n' % pname + HARNESS)
    return ex, c


def replay(job, res, ob):
    tr = res.traces.get(ob['name'])
    if not tr:
        return {'reproduced': None, 'detail': 'verifier gave no trace', 'input': None}
    vals = R.last_values(tr)
    n = R.as_int(vals.get('g_nc'))
    nc = job.nc
    if n is None or n > nc:
        return {'reproduced': None, 'detail': 'trace does not bind the candidate count', 'input': None}
    order = R.arr(vals, 'w_order', nc)[:n]
    dom = []
    for i in range(nc):
        row = []
        for j in range(nc):
            v = None
            for key in ('w_dom[%dl][%dl]' % (i, j), 'w_dom[%d][%d]' % (i, j)):
                if key in vals:
                    v = R.as_int(vals[key])
            row.append(v)
        dom.append(row)
    if any(o is None for o in order):
        return {'reproduced': None, 'detail': 'trace does not bind the candidate order', 'input': None}
    return R.replay_best(n, order, dom)


PERM_LEMMA = r'''
#include "yv.h"
#define N 6
/* C06 lemma over best()'s contract: whatever order the candidates are presented in, any two results that satisfy
   P1-P4 agree on "no definition / this definition / ambiguous".  dom is an arbitrary irreflexive asymmetric
   relation over the candidate set {0..n-1}; R and R' are arbitrary sets of candidates (as membership bits) with
   their sizes - the postconditions only speak about the candidate SET, never about positions. */
void h_perm_lemma(void)
{
    size_t n = nondet_size_t(); __CPROVER_assume(n <= N);
    _Bool dom[N][N]; _Bool inR[N], inS[N];
    for (size_t i = 0; i < N; ++i) for (size_t j = 0; j < N; ++j) { dom[i][j] = nondet_bool(); }
    for (size_t i = 0; i < N; ++i) for (size_t j = 0; j < N; ++j) __CPROVER_assume(!(dom[i][j] && dom[j][i]));
    size_t nR = 0, nS = 0;
    for (size_t i = 0; i < N; ++i) { inR[i] = nondet_bool(); inS[i] = nondet_bool();
        if (i >= n) { inR[i] = 0; inS[i] = 0; }            /* P4: results are candidates (distinctness = set membership) */
        nR += inR[i]; nS += inS[i]; }
    /* P3 */
    __CPROVER_assume((nR == 0) == (n == 0)); __CPROVER_assume((nS == 0) == (n == 0));
    for (size_t d = 0; d < N; ++d) {
        if (d >= n) continue;
        _Bool dominates_all = 1;
        for (size_t j = 0; j < N; ++j) if (j < n && j != d && !dom[d][j]) dominates_all = 0;
        /* P1: a single result dominates every other candidate */
        if (nR == 1 && inR[d]) __CPROVER_assume(dominates_all);
        if (nS == 1 && inS[d]) __CPROVER_assume(dominates_all);
        /* P2: a dominating candidate is the single result */
        if (dominates_all) { __CPROVER_assume(nR == 1 && inR[d]); __CPROVER_assume(nS == 1 && inS[d]); }
    }
    __CPROVER_assert((nR == 0) == (nS == 0) && (nR == 1) == (nS == 1) && (nR > 1) == (nS > 1),
                     "C06 the outcome class (no definition / one definition / ambiguous) does not depend on the order of the candidates");
    for (size_t d = 0; d < N; ++d)
        if (nR == 1 && inR[d]) __CPROVER_assert(inS[d], "C06 the selected definition does not depend on the order of the candidates");
    YV_COVER(n == N && nR == 1, "unique winner among six");
    YV_COVER(n == 5 && nR == 3 && nS == 2, "ambiguous, results of different sizes");
}
'''


def jobs(tier):
    out_lemma = [Job(unit='best', config='order-independence-lemma', c_text=PERM_LEMMA, entry='h_perm_lemma', kind='proof', unwind=8,
                     min_obligations=2, min_cover=2, props=['C06'],
                     note='lemma over the postconditions P1-P4 of best() for candidate sets of up to 6 definitions (no repository code)',
                     assumptions=['more-specific relation irreflexive and asymmetric (specificity/dom-lemmas)'])]
    nc = 5 if tier == 'thorough' else 4
    ex, c = make(nc)
    j = Job(unit='best', config='bounded-nc%d' % nc, c_text=c, entry='h_best',
            enforce=None, replace=[], loop_contracts=False,
            unwind=nc + 2, kind='bounded', object_bits=12,
            bound='best(): <= %d candidates, any order, every irreflexive asymmetric relation' % nc,
            defines=['NC=%d' % nc], min_obligations=30, min_cover=4,
            functions=['%s compiler<Policy>::best sha256:%s' % (ex.where(), ex.sha())],
            trusted=['std::vector<const definition*>: erase / push_back / begin / end per [vector.modifiers] (shim functions in the generated source)',
                     'is_more_specific replaced by a stub whose body is its contract: precondition asserted, result = uninterpreted dom(a, b) (pure function of the two definitions)'],
            assumptions=['dom irreflexive and asymmetric (proved from is_more_specific\'s postcondition by job specificity/dom-lemmas); NOT assumed transitive',
                         'candidates are pairwise distinct pointers'],
            extracted=[ex], replay=replay, timeout=900 if nc <= 4 else 2700,
            props=['C01', 'C02', 'C03', 'C06'])
    j.nc = nc
    return [j] + out_lemma
