"""vptr_vector::publish_vptrs / dynamic_vptr (vptr_vector.hpp) and
vptr_map::publish_vptrs / dynamic_vptr (vptr_map.hpp) under contract, per
facet configuration (type_hash on / off, indirect_vptr on / off).

publish_vptrs is cut at its loop boundaries like hash_initialize: prologue,
inductive step of the publishing loop (and of the size loop when there is no
hash), all loop-free over arbitrary states; the vptr vectors are Skolem arrays
(size + the cell of the Skolem id's index).  dynamic_vptr is loop-free.
"""
import re

from engine import extract as X
from engine.core import Job, syntactic_frame_job
from units import hashing as H

REL_V = 'include/yorel/yomm2/policies/vptr_vector.hpp'
REL_M = 'include/yorel/yomm2/policies/vptr_map.hpp'

VSHIM = r'''
/* vptrs / indirect_vptrs as Skolem arrays observed at index g_vS */
typedef struct { size_t n; } vec_vp_abs;
vec_vp_abs vptrs, indirect_vptrs;
struct yv_vghost { size_t vS; const uintptr_t *cellV, *scratchV; const uintptr_t *const *cellI, *const *scratchI; } V;
#define g_vS (V.vS)
const uintptr_t *nondet_vptr(void); const uintptr_t *const *nondet_ivptr(void);
static inline const uintptr_t **yv_vp(vec_vp_abs *v, size_t i)
{
    __CPROVER_assert(i < v->n, "C04 vptr vector index in range");
    if (i == g_vS) return &V.cellV;
    V.scratchV = nondet_vptr();
    return &V.scratchV;
}
static inline const uintptr_t *const **yv_ivp(vec_vp_abs *v, size_t i)
{
    __CPROVER_assert(i < v->n, "C04 indirect vptr vector index in range");
    if (i == g_vS) return &V.cellI;
    V.scratchI = nondet_ivptr();
    return &V.scratchI;
}
static inline void vec_vp_resize(vec_vp_abs *v, size_t n)
{
    if (g_vS >= v->n && g_vS < n) V.cellV = (const uintptr_t *)0;
    v->n = n;
}
static inline void vec_ivp_resize(vec_vp_abs *v, size_t n)
{
    if (g_vS >= v->n && g_vS < n) V.cellI = (const uintptr_t *const *)0;
    v->n = n;
}
uintptr_t *g_static_vptr[NCLS];     /* the classes' static_vptr variables */
'''

PUBLISH = r'''
const yv_class *first, *last, *iter; const type_id *type_iter; size_t size;
yv_class g_classes[NCLS];
#define CI ((size_t)(iter - first))
#define TI ((size_t)(type_iter - &iter->ids[0]))
#define VISITED(ci, ti) (g_validS && ((ci) > g_cS || ((ci) == g_cS && (ti) > g_pS)))
#if YV_FACET_HASH
#define INDEX_OF_S g_hS
#else
#define INDEX_OF_S ((size_t)g_idS)
#endif
/* C05/C10: the class's v-table pointer (and the address of its static vptr variable) is stored at the
   index of every one of its ids */
#define PUBLISHED (g_vS == INDEX_OF_S && INDEX_OF_S < vptrs.n && V.cellV == (const uintptr_t *)*first[g_cS].static_vptr && \
                   (!YV_FACET_INDIRECT || (INDEX_OF_S < indirect_vptrs.n && V.cellI == (const uintptr_t *const *)first[g_cS].static_vptr)))
#define INVP(ci, ti) (!(VISITED(ci, ti) && g_idS != EMPTY) || PUBLISHED)

#if YV_FACET_HASH
/* Policy::hash_initialize(first, last): contract = postcondition of fast / checked hash_initialize */
static void policy_hash_initialize(const yv_class *f, const yv_class *l)
{
    __CPROVER_assert(f == first && l == last, "hash_initialize is given the same class range");
    hash_mult = nondet_uintptr(); hash_shift = nondet_size_t(); hash_length = nondet_size_t(); hash_max = nondet_size_t();
    g_M = nondet_size_t(); g_hS = nondet_size_t(); g_pm = hash_mult; g_ps = hash_shift;
    __CPROVER_assume(g_M >= 1 && g_M <= 30 && hash_shift == 64 - g_M && hash_length == hash_max + 1 && hash_max < ((size_t)1 << 62));
    __CPROVER_assume(!(g_validS && g_idS != EMPTY) || (g_hS < ((size_t)1 << g_M) && g_hS <= hash_max));
    g_vS = g_hS;      /* ghost: the observed vptr cell is the one at the Skolem id's index */
}
/* Policy::hash_type_id: fast or checked lookup through its contract (value named by the abstract hash) */
static type_id policy_hash_type_id(type_id t) { return yv_hash(t); }
#else
static void policy_hash_initialize(const yv_class *f, const yv_class *l) { __CPROVER_assert(0, "no hash facet"); }
static type_id policy_hash_type_id(type_id t) { __CPROVER_assert(0, "no hash facet"); return t; }
#endif

static void frag_prologue(void)
{
@PROLOGUE@
}
#if !YV_FACET_HASH
static void frag_size_body(void)
{
@SIZE_BODY@
}
static void frag_size_epilogue(void)
{
@SIZE_EPI@
}
#endif
static void frag_body(void)
{
@BODY@
}

static void arbitrary_state(void)
{
    hash_mult = nondet_uintptr(); hash_shift = nondet_size_t(); hash_length = nondet_size_t(); hash_max = nondet_size_t();
    g_cS = nondet_size_t(); g_pS = nondet_size_t(); g_ncls = nondet_size_t(); g_hS = nondet_size_t(); g_M = nondet_size_t();
    g_pm = nondet_uintptr(); g_ps = nondet_size_t(); g_vS = nondet_size_t();
    V.cellV = nondet_vptr(); V.cellI = nondet_ivptr(); vptrs.n = nondet_size_t(); indirect_vptrs.n = nondet_size_t();
    size = nondet_size_t();
    for (size_t i = 0; i < NCLS; ++i) { yv_class c; g_classes[i] = c; g_classes[i].static_vptr = &g_static_vptr[i];
                                        g_static_vptr[i] = (uintptr_t *)nondet_vptr(); }
    __CPROVER_assume(g_ncls <= NCLS);
    first = g_classes; last = g_classes + g_ncls;
    g_validS = g_cS < g_ncls && g_pS < first[g_cS < NCLS ? g_cS : 0].nids;
    g_idS = first[g_cS < NCLS ? g_cS : 0].ids[g_pS < NIDS ? g_pS : 0];
    g_vS = INDEX_OF_S;   /* the observed vptr cell is the one at the Skolem id's index */
}
/* facts about the hash / the size that later steps use at the id they are currently visiting: instances of
   universally quantified facts proved at a Skolem id (hash_initialize's postcondition, the size loop) */
static void lemma_instances(type_id x, size_t cx)
{
    /* precondition: registered ids differ from the invalid id (type_id)-1 */
    __CPROVER_assume(x != EMPTY);
#if YV_FACET_HASH
    __CPROVER_assume(g_pm == hash_mult && g_ps == hash_shift);
    /* (a) every registered id's index is <= hash_max < hash_length */
    __CPROVER_assume(x != EMPTY ==> yv_hash(x) <= hash_max);
    /* (b) two registered ids with the same index are the same id (both sit in the bucket their hash selects) */
    __CPROVER_assume((x != EMPTY && g_idS != EMPTY && g_validS && yv_hash(x) == g_hS) ==> x == g_idS);
#else
    /* every registered id is below the computed size */
    __CPROVER_assume(x < size);
#endif
    /* precondition of publish_vptrs: an id belongs to one class only (class_map is keyed by the id's type_index) */
    __CPROVER_assume((g_validS && x == g_idS) ==> cx == g_cS);
}

void h_prologue(void)
{
    arbitrary_state();
    frag_prologue();
#if YV_FACET_HASH
    __CPROVER_assert(vptrs.n == hash_length && size == hash_length, "C05 the vptr vector has hash_length entries");
#endif
    __CPROVER_assert(!YV_FACET_INDIRECT || indirect_vptrs.n == vptrs.n, "the indirect vector has the same size");
    __CPROVER_assert(INVP(0, 0), "publishing loop invariant holds on entry");
    YV_COVER(vptrs.n > 5, "non-trivial size");
}

#if !YV_FACET_HASH
/* size loop: size >= every visited id; afterwards ++size makes every id a valid index */
void h_size_step(void)
{
    arbitrary_state();
    size_t ci = nondet_size_t(), ti = nondet_size_t();
    __CPROVER_assume(ci < g_ncls); iter = first + ci;
    __CPROVER_assume(ti < iter->nids); type_iter = &iter->ids[ti];
    __CPROVER_assume(!(VISITED(ci, ti)) || g_idS <= size);
    size_t s0 = size;
    frag_size_body();
    __CPROVER_assert(!(VISITED(ci, ti + 1)) || g_idS <= size, "size loop step: size is at least every visited id");
    __CPROVER_assert(size >= s0, "size only grows");
    YV_COVER(ci == g_cS && ti == g_pS && g_validS && size == g_idS, "Skolem id is the maximum");
}
void h_size_epilogue(void)
{
    arbitrary_state();
    __CPROVER_assume(!g_validS || g_idS <= size);
    __CPROVER_assume(!(g_validS && g_idS == EMPTY));       /* registered ids differ from the invalid id (type_id)-1 */
    __CPROVER_assume(size != EMPTY || !g_validS);
    frag_size_epilogue();
    __CPROVER_assert(!g_validS || g_idS < size, "every registered id is a valid index of a vector of `size` entries");
    YV_COVER(g_validS, "a registered id");
}
#endif

/* inductive step of the publishing loop */
void h_step(void)
{
    arbitrary_state();
    size_t ci = nondet_size_t(), ti = nondet_size_t();
    __CPROVER_assume(ci < g_ncls); iter = first + ci;
    __CPROVER_assume(ti < iter->nids); type_iter = &iter->ids[ti];
#if YV_FACET_HASH
    __CPROVER_assume(g_M >= 1 && g_M <= 30 && hash_shift == 64 - g_M && hash_max < ((size_t)1 << 62) && hash_length == hash_max + 1 && vptrs.n == hash_length);
#else
    __CPROVER_assume(vptrs.n == size);
#endif
    __CPROVER_assume(!YV_FACET_INDIRECT || indirect_vptrs.n == vptrs.n);
    __CPROVER_assume(INVP(ci, ti));
    lemma_instances(*type_iter, ci);
    size_t n0 = vptrs.n;
    frag_body();
    __CPROVER_assert(INVP(ci, ti + 1), "C05/C10 step: the v-table pointer of every visited id's class is stored at that id's index");
    __CPROVER_assert(vptrs.n == n0, "the vectors are not resized while publishing");
    __CPROVER_assert(iter == first + ci && type_iter == &iter->ids[ti], "the body does not move the iterators");
    YV_COVER(ci == g_cS && ti == g_pS && g_validS && g_idS != EMPTY, "the Skolem id is published");
    YV_COVER(VISITED(ci, ti) && g_idS != EMPTY && ci != g_cS, "another class's id is published after the Skolem id");
    YV_COVER(VISITED(ci, ti) && g_idS != EMPTY && ci == g_cS, "a second id of the Skolem class is published");
}
'''

DYN = r'''
#define YV_AT_ABORT
/* Policy::dynamic_type(arg): the dynamic class's id */
type_id g_dyn_id;
static type_id policy_dynamic_type(const void *arg) { return g_dyn_id; }
#if YV_FACET_HASH
size_t g_lookup_index; _Bool g_lookup_rejects;
/* Policy::hash_type_id through its contract: fast: the hash value; checked: additionally rejects
   (does not return) ids that fail the range / identity test */
static type_id policy_hash_type_id(type_id t)
{
    size_t r = yv_hash(t);
#if YV_FACET_CHECKED
    if (g_lookup_rejects) { __CPROVER_assume(0); }
    __CPROVER_assume(r < hash_length);
#endif
    return r;
}
#endif
const uintptr_t *dynamic_vptr(const void *arg_p)
{
#define arg (*arg_p)
@BODY@
#undef arg
}
yv_class g_classes[NCLS];
void h_dynamic_vptr(void)
{
    hash_mult = nondet_uintptr(); hash_shift = nondet_size_t(); hash_length = nondet_size_t(); hash_max = nondet_size_t();
    g_hS = nondet_size_t(); g_pm = hash_mult; g_ps = hash_shift; g_vS = nondet_size_t();
    V.cellV = nondet_vptr(); vptrs.n = nondet_size_t();
    g_idS = nondet_uintptr(); g_dyn_id = g_idS;            /* the argument's dynamic class is registered: its id is the Skolem id */
#if YV_FACET_HASH
    g_lookup_rejects = nondet_bool();
    __CPROVER_assume(hash_shift >= 34 && hash_shift <= 63);
    size_t ix = g_hS;
    __CPROVER_assume(g_hS <= hash_max && hash_length == hash_max + 1 && hash_max < ((size_t)1 << 62));   /* hash_initialize */
    __CPROVER_assume(vptrs.n == hash_length);                                                          /* publish prologue */
#else
    size_t ix = (size_t)g_idS;
    __CPROVER_assume(ix < vptrs.n);                                                                    /* size loop */
#endif
    const uintptr_t *vp = nondet_vptr();
    __CPROVER_assume(g_vS == ix && V.cellV == vp);        /* publish_vptrs' postcondition at this id */
    struct yv_statics P0 = P; struct yv_vghost V0 = V; size_t n0 = vptrs.n;
    int dummy;
    const uintptr_t *r = dynamic_vptr(&dummy);
    __CPROVER_assert(r == vp, "C01/C10 dynamic_vptr returns the v-table pointer published for the object's dynamic class");
    __CPROVER_assert(P.hash_mult_ == P0.hash_mult_ && P.hash_shift_ == P0.hash_shift_ && P.hash_length_ == P0.hash_length_ &&
                     P.hash_max_ == P0.hash_max_ && P.hash_min_ == P0.hash_min_ && V.cellV == V0.cellV && vptrs.n == n0,
                     "C16 dynamic_vptr writes nothing (hash parameters and the vptr vector are only read)");
    YV_COVER(ix == 1000, "index 1000");
}
'''


def facet_eval(cfg):
    def ev(cond):
        c = cond.replace(' ', '')
        table = {
            'has_facet<Policy,type_hash>': cfg['hash'],
            'has_facet<Policy,indirect_vptr>': cfg['indirect'],
        }
        return table.get(c)
    return ev


def publish_rules(cfg):
    return [
        X.eval_if_constexpr(facet_eval(cfg), 3),
        X.Rule('auto in for-init', r'for\s*\(\s*auto\s+(\w+)\s*=', r'for (__auto_type \1 ='),
        X.split_auto_declarators,
        X.Rule('Policy::hash_initialize', r'Policy::hash_initialize\(', 'policy_hash_initialize('),
        X.Rule('Policy::hash_length', r'Policy::hash_length\b', 'hash_length'),
        X.Rule('Policy::hash_type_id', r'Policy::hash_type_id\(', 'policy_hash_type_id('),
        X.Rule('vptrs.resize', r'(?<![\w:])vptrs\.resize\(', 'vec_vp_resize(&vptrs, ', 1, 1),
        X.Rule('indirect_vptrs.resize', r'Policy::indirect_vptrs\.resize\(', 'vec_ivp_resize(&indirect_vptrs, '),
        X.Rule('vptrs[i]', r'(?<![\w:])vptrs\[(\w+)\]', r'(*yv_vp(&vptrs, \1))'),
        X.Rule('indirect_vptrs[i]', r'Policy::indirect_vptrs\[(\w+)\]', r'(*yv_ivp(&indirect_vptrs, \1))'),
        X.Rule('type_id_begin()', r'(\w+)->type_id_begin\(\)', r'TYPE_ID_BEGIN(\1)'),
        X.Rule('type_id_end()', r'(\w+)->type_id_end\(\)', r'TYPE_ID_END(\1)'),
        X.Rule('iter->vptr()', r'(\w+)->vptr\(\)', r'CLASS_VPTR(\1)'),
        X.Rule('iter->indirect_vptr()', r'(\w+)->indirect_vptr\(\)', r'CLASS_INDIRECT_VPTR(\1)'),
    ] + X.COMMON_RULES


EXPECTED = ['for (__auto_type iter = first; iter != last; ++iter)',
            'for (__auto_type type_iter = TYPE_ID_BEGIN(iter); type_iter != TYPE_ID_END(iter); ++type_iter)']


def blocks_of(body):
    hs = X.loop_headers(body)
    out = []
    for (kw, a, b) in hs:
        m = re.compile(r'\s*\{').match(body, b)
        if not m:
            raise X.ExtractionBroken('publish_vptrs: loop without block')
        ob = m.end() - 1
        out.append((a, b, ob, X.match_close(body, ob), X.norm_ws(body[a:b])))
    return out


def decompose_publish(ex, cfg):
    body = ex.body
    bl = blocks_of(body)
    nest = 1 if cfg['hash'] else 2
    if len(bl) != 2 * nest:
        raise X.ExtractionBroken('publish_vptrs: %d loops for this configuration (expected %d)' % (len(bl), 2 * nest))
    for k, b in enumerate(bl):
        if b[4] != EXPECTED[k % 2]:
            raise X.ExtractionBroken('publish_vptrs: loop header `%s`, expected `%s`' % (b[4], EXPECTED[k % 2]))
    seg = {}
    # last nest = publishing loops
    o, i = bl[-2], bl[-1]
    if not (o[2] < i[0] and i[3] < o[3]) or body[o[2] + 1:i[0]].strip() or body[i[3] + 1:o[3]].strip():
        raise X.ExtractionBroken('publish_vptrs: unexpected nesting of the publishing loops')
    if body[o[3] + 1:].strip():
        raise X.ExtractionBroken('publish_vptrs: statements after the publishing loops')
    seg['BODY'] = body[i[2] + 1:i[3]]
    if cfg['hash']:
        seg['PROLOGUE'] = body[:o[0]]
        seg['SIZE_BODY'] = seg['SIZE_EPI'] = ''
    else:
        so, si = bl[0], bl[1]
        if not (so[2] < si[0] and si[3] < so[3]) or body[so[2] + 1:si[0]].strip() or body[si[3] + 1:so[3]].strip():
            raise X.ExtractionBroken('publish_vptrs: unexpected nesting of the size loops')
        # the size nest sits inside the else-branch block: prologue = text before it + text after it
        pre = body[:so[0]]
        post = body[so[3] + 1:o[0]]
        seg['SIZE_BODY'] = body[si[2] + 1:si[3]]
        # statements after the size loops up to the closing brace of the branch block
        mclose = post.find('}')
        if mclose < 0:
            raise X.ExtractionBroken('publish_vptrs: size branch not closed')
        seg['SIZE_EPI'] = post[:mclose]
        # prologue: what precedes the size loops (size = 0) stays with the size obligations; the rest (resizes) is the prologue
        if not re.search(r'\bsize\s*=\s*0\s*;', pre):
            raise X.ExtractionBroken('publish_vptrs: size is not initialised to 0 before the size loops')
        seg['PROLOGUE'] = post[mclose + 1:]
        ex.dropped.append('`std::size_t size; { size = 0;` (declaration and initialisation: size is a harness global; the base case of the size invariant is size >= nothing)')
    # size declaration -> global
    for k in list(seg):
        seg[k] = re.sub(r'\bsize_t\s+size\s*;', '', seg[k])
    return seg


def make_publish(cfg):
    ex = X.find_function(REL_V, r'static\s+void\s+publish_vptrs\s*\(\s*ForwardIterator\s+first,\s*ForwardIterator\s+last\s*\)')
    X.apply_rules(ex, publish_rules(cfg))
    H.clean('publish_vptrs', ex.body)
    return ex


def make_dyn(cfg):
    ex = X.find_function(REL_V, r'static\s+const\s+std::uintptr_t\*\s+dynamic_vptr\s*\(\s*const\s+Class&\s+arg\s*\)')
    rules = [X.eval_if_constexpr(facet_eval(cfg), 1), X.split_auto_declarators,
             X.Rule('Policy::dynamic_type', r'Policy::dynamic_type\(\s*arg\s*\)', 'policy_dynamic_type(arg_p)', 1, 1),
             X.Rule('Policy::hash_type_id', r'Policy::hash_type_id\(', 'policy_hash_type_id('),
             X.Rule('vptrs[i]', r'(?<![\w:])vptrs\[(\w+)\]', r'(*yv_vp(&vptrs, \1))', 1, 1)] + X.COMMON_RULES
    X.apply_rules(ex, rules)
    H.clean('dynamic_vptr', ex.body)
    return ex


TRUSTED = ['vptrs / indirect_vptrs as Skolem arrays (size + the observed cell; every index is bounds-checked; resize per [vector.capacity])',
           'class range as an arena of classes with 0..3 ids each; iter->vptr() == *static_vptr, iter->indirect_vptr() == static_vptr',
           'if constexpr (has_facet<Policy, F>) evaluated per configuration, the selected branch kept verbatim',
           'Policy::hash_initialize / hash_type_id replaced by their contracts (units/hashing)']
ASSUME = ['an id belongs to one class only (class_map is keyed by the id\'s type_index) - precondition of publish_vptrs',
          'registered ids differ from (type_id)-1',
          'lemma instances at the id being visited: index <= hash_max < hash_length and injectivity of the hash on registered ids, both consequences of '
          'hash_initialize\'s postcondition "every registered id sits in the bucket its hash selects" (proved at a Skolem id)',
          'composition of base / step obligations relies on the loop skeleton having the expected shape (checked textually each run)']


# ---------------------------------------------------------------- vptr_map
MAP = r'''
/* std::unordered_map<type_id, const uintptr_t*> as a Skolem map observed at key g_idS */
typedef struct { const uintptr_t *second; } yv_map_node;
struct yv_mghost { _Bool present; yv_map_node node; yv_map_node scratch; } MP;
typedef struct { int unused; } yv_map;
yv_map vptrs;
const uintptr_t *nondet_vptr(void);
/* operator[]: inserts a value-initialised element if absent, returns a reference to the mapped value */
static inline const uintptr_t **yv_map_index(yv_map *m, type_id k)
{
    if (k == g_idS) { if (!MP.present) { MP.present = 1; MP.node.second = (const uintptr_t *)0; } return &MP.node.second; }
    MP.scratch.second = nondet_vptr();
    return &MP.scratch.second;
}
/* emplace / insert: no effect if the key is present */
static inline void yv_map_emplace(yv_map *m, type_id k, const uintptr_t *v)
{
    if (k == g_idS && !MP.present) { MP.present = 1; MP.node.second = v; }
}
/* find(k): iterator to the element, end() if absent; dereferencing end() is undefined */
static inline yv_map_node *yv_map_find(yv_map *m, type_id k)
{
    if (k == g_idS) { __CPROVER_assert(MP.present, "find() result is dereferenced: the key must be present"); return &MP.node; }
    MP.scratch.second = nondet_vptr();
    return &MP.scratch;
}
uintptr_t *g_static_vptr[NCLS];
const yv_class *first, *last, *iter; const type_id *type_iter;
yv_class g_classes[NCLS];
#define VISITED(ci, ti) (g_validS && ((ci) > g_cS || ((ci) == g_cS && (ti) > g_pS)))
#define PUBLISHED (MP.present && MP.node.second == (const uintptr_t *)*first[g_cS].static_vptr)
#define INVP(ci, ti) (!VISITED(ci, ti) || PUBLISHED)
static void frag_body(void)
{
@BODY@
}
type_id g_dyn_id;
static type_id policy_dynamic_type(const void *arg) { return g_dyn_id; }
const uintptr_t *map_dynamic_vptr(const void *arg_p)
{
@DYN@
}
static void arbitrary_state(void)
{
    g_cS = nondet_size_t(); g_pS = nondet_size_t(); g_ncls = nondet_size_t();
    MP.present = nondet_bool(); MP.node.second = nondet_vptr();      /* entries of an earlier update may still be there */
    for (size_t i = 0; i < NCLS; ++i) { yv_class c; g_classes[i] = c; g_classes[i].static_vptr = &g_static_vptr[i];
                                        g_static_vptr[i] = (uintptr_t *)nondet_vptr(); }
    __CPROVER_assume(g_ncls <= NCLS);
    first = g_classes; last = g_classes + g_ncls;
    g_validS = g_cS < g_ncls && g_pS < first[g_cS < NCLS ? g_cS : 0].nids;
    g_idS = first[g_cS < NCLS ? g_cS : 0].ids[g_pS < NIDS ? g_pS : 0];
}
void h_map_step(void)
{
    arbitrary_state();
    size_t ci = nondet_size_t(), ti = nondet_size_t();
    __CPROVER_assume(ci < g_ncls); iter = first + ci;
    __CPROVER_assume(ti < iter->nids); type_iter = &iter->ids[ti];
    __CPROVER_assume(INVP(ci, ti));
    /* precondition: an id belongs to one class only */
    __CPROVER_assume((g_validS && *type_iter == g_idS) ==> ci == g_cS);
    frag_body();
    __CPROVER_assert(INVP(ci, ti + 1), "C01/C10 step: the map sends every visited id to its class's CURRENT v-table pointer (entries of earlier updates are overwritten)");
    __CPROVER_assert(iter == first + ci && type_iter == &iter->ids[ti], "the body does not move the iterators");
    YV_COVER(ci == g_cS && ti == g_pS && g_validS && MP.present, "the Skolem id is (re)published");
    YV_COVER(VISITED(ci, ti) && ci != g_cS, "another class's id");
}
void h_map_dynamic_vptr(void)
{
    arbitrary_state();
    __CPROVER_assume(g_validS && PUBLISHED);      /* postcondition of publish_vptrs for the argument's dynamic class */
    g_dyn_id = g_idS;
    _Bool p0 = MP.present; const uintptr_t *v0 = MP.node.second;
    int dummy;
    const uintptr_t *r = map_dynamic_vptr(&dummy);
    __CPROVER_assert(r == (const uintptr_t *)*first[g_cS].static_vptr, "C01 dynamic_vptr returns the v-table pointer of the object's dynamic class");
    __CPROVER_assert(MP.present == p0 && MP.node.second == v0, "C16 the map is only read");
    YV_COVER(1, "reachable");
}
'''


def map_jobs():
    ex = X.find_function(REL_M, r'static\s+void\s+publish_vptrs\s*\(\s*ForwardIterator\s+first,\s*ForwardIterator\s+last\s*\)')
    rules = [X.Rule('auto in for-init', r'for\s*\(\s*auto\s+(\w+)\s*=', r'for (__auto_type \1 ='),
             X.Rule('map[k] = v', r'(?<![\w:])vptrs\[([^\]]+)\]', r'(*yv_map_index(&vptrs, \1))'),
             X.method_call(r'(?<![\w:])vptrs', 'emplace', lambda o, a: 'yv_map_emplace(&%s, %s, %s)' % (o, a[0], a[1]), 'map.emplace'),
             X.method_call(r'(?<![\w:])vptrs', 'insert_or_assign', lambda o, a: '(*yv_map_index(&%s, %s)) = %s' % (o, a[0], a[1]), 'map.insert_or_assign'),
             X.Rule('type_id_begin()', r'(\w+)->type_id_begin\(\)', r'TYPE_ID_BEGIN(\1)'),
             X.Rule('type_id_end()', r'(\w+)->type_id_end\(\)', r'TYPE_ID_END(\1)'),
             X.Rule('iter->vptr()', r'(\w+)->vptr\(\)', r'CLASS_VPTR(\1)')] + X.COMMON_RULES
    exd = X.find_function(REL_M, r'static\s+auto\s+dynamic_vptr\s*\(\s*const\s+Class&\s+arg\s*\)')
    bad_map = X.nonlocal_assignments(exd.body, [])
    if bad_map:
        return [syntactic_frame_job('vptrs', 'frame-map-dynamic_vptr', 'vptr_map::dynamic_vptr', bad_map, ['C16', 'C01'])]
    X.apply_rules(ex, rules)
    H.clean('vptr_map::publish_vptrs', ex.body)
    bl = blocks_of(ex.body)
    if len(bl) != 2 or [b[4] for b in bl] != EXPECTED:
        raise X.ExtractionBroken('vptr_map::publish_vptrs: unexpected loop skeleton %s' % [b[4] for b in bl])
    o, i = bl
    if ex.body[:o[0]].strip() or ex.body[o[2] + 1:i[0]].strip() or ex.body[i[3] + 1:o[3]].strip() or ex.body[o[3] + 1:].strip():
        raise X.ExtractionBroken('vptr_map::publish_vptrs: statements outside the innermost loop body')
    body = ex.body[i[2] + 1:i[3]]
    X.apply_rules(exd, [X.Rule('Policy::dynamic_type', r'Policy::dynamic_type\(\s*arg\s*\)', 'policy_dynamic_type(arg_p)', 1, 1),
                        X.method_call(r'(?<![\w:])vptrs', 'find', lambda o, a: 'yv_map_find(&%s, %s)' % (o, a[0]), 'map.find', 1)] + X.COMMON_RULES)
    H.clean('vptr_map::dynamic_vptr', exd.body)
    c = H.STATICS + H.GHOST + MAP.replace('@BODY@', body).replace('@DYN@', exd.body)
    tr = ['std::unordered_map as a Skolem map observed at one key: operator[] inserts-or-returns, emplace does not overwrite, find()->second requires presence ([unord.map])',
          'class range as an arena of classes with 0..3 ids each']
    out = []
    out.append(Job(unit='vptrs', config='map-publish-step', c_text=c, entry='h_map_step', kind='proof', unwind=20, defines=['NCLS=16'],
                   min_obligations=2, min_cover=2, functions=['%s vptr_map::publish_vptrs sha256:%s' % (ex.where(), ex.sha())],
                   trusted=tr, assumptions=ASSUME[:1] + ['the map may hold entries of earlier updates (arbitrary prior content)', ASSUME[3]],
                   extracted=[ex], props=['C01', 'C07', 'C10'], timeout=300))
    out.append(Job(unit='vptrs', config='map-dynamic_vptr', c_text=c, entry='h_map_dynamic_vptr', kind='proof', unwind=20, defines=['NCLS=16'],
                   min_obligations=2, min_cover=1, functions=['%s vptr_map::dynamic_vptr sha256:%s' % (exd.where(), exd.sha())],
                   trusted=tr, assumptions=['the argument\'s dynamic class is registered'], extracted=[exd],
                   props=['C01', 'C16'], timeout=300))
    return out


def jobs(tier):
    out = map_jobs()
    for hsh in (1, 0):
        for ind in (0, 1):
            cfg = {'hash': bool(hsh), 'indirect': bool(ind)}
            name = 'hash%d-indirect%d' % (hsh, ind)
            defs = ['NCLS=16', 'YV_FACET_HASH=%d' % hsh, 'YV_FACET_INDIRECT=%d' % ind]
            ex = make_publish(cfg)
            fd = ['%s vptr_vector::publish_vptrs [%s] sha256:%s' % (ex.where(), name, ex.sha())]
            try:
                seg = decompose_publish(ex, cfg)
                broken = None
            except X.ExtractionBroken as e:
                seg, broken = None, str(e)
            if seg is None:
                j = Job(unit='vptrs', config='publish-%s' % name, c_text='', entry='none', props=['C05', 'C10', 'C07', 'C09'])
                j.broken = 'publish_vptrs loop skeleton: ' + broken
                out.append(j)
            else:
                c = H.STATICS + H.GHOST + VSHIM + PUBLISH
                for k, v in seg.items():
                    c = c.replace('@%s@' % k, v)
                entries = [('prologue', 'h_prologue', 3, 1), ('step', 'h_step', 4, 3)]
                if not hsh:
                    entries += [('size-step', 'h_size_step', 2, 1), ('size-epilogue', 'h_size_epilogue', 1, 1)]
                for e, h, mo, mc in entries:
                    out.append(Job(unit='vptrs', config='publish-%s-%s' % (name, e), c_text=c, entry=h, kind='proof',
                                   unwind=20, defines=defs, min_obligations=mo, min_cover=mc, functions=fd,
                                   trusted=TRUSTED, assumptions=ASSUME, extracted=[ex],
                                   props=['C05', 'C10', 'C07', 'C09'], timeout=600))
        for checked in ((0, 1) if hsh else (0,)):
            cfg = {'hash': bool(hsh), 'indirect': False}
            exd0 = X.find_function(REL_V, r'static\s+const\s+std::uintptr_t\*\s+dynamic_vptr\s*\(\s*const\s+Class&\s+arg\s*\)')
            bad = X.nonlocal_assignments(exd0.body, ['index'])
            if bad:
                out.append(syntactic_frame_job('vptrs', 'frame-dynamic_vptr-hash%d-checked%d' % (hsh, checked), 'vptr_vector::dynamic_vptr', bad, ['C16', 'C01']))
                continue
            exd = make_dyn(cfg)
            c = H.STATICS + H.GHOST + VSHIM + DYN.replace('@BODY@', exd.body)
            out.append(Job(unit='vptrs', config='dynamic_vptr-hash%d-checked%d' % (hsh, checked), c_text=c, entry='h_dynamic_vptr',
                           kind='proof', unwind=20, defines=['NCLS=16', 'YV_FACET_HASH=%d' % hsh, 'YV_FACET_CHECKED=%d' % checked],
                           min_obligations=3, min_cover=1,
                           functions=['%s vptr_vector::dynamic_vptr [hash%d checked%d] sha256:%s' % (exd.where(), hsh, checked, exd.sha())],
                           trusted=TRUSTED + ['Policy::dynamic_type(arg) returns the id of the argument\'s dynamic class (RTTI facet, not extracted)'],
                           assumptions=['the argument\'s dynamic class is registered (its id is the Skolem id of publish_vptrs\' postcondition)'],
                           extracted=[exd], props=['C01', 'C04', 'C05', 'C10', 'C16'], timeout=300))
    return out
