"""Fragments of compiler<Policy>::build_dispatch_tables / build_dispatch_table
and generic_compiler::accumulate (compiler.hpp).

  next      the selection of each definition's `next` (C03)
  leaf      the dim == 0 step that fills one dispatch cell and counts it, and
            the recursive call made otherwise (C02, C17)
  accumulate  aggregation of per-method counters into the report (C17) - proof

`best` and `is_base` are replaced by stubs that ARE their contracts (best: the
postconditions P1-P4 checked by units/best.py; is_base: a pure function of the
two definitions).  The fragment loops are unwound: bounded(<= NC definitions).
"""
import re

from engine import extract as X
from engine.core import Job

REL = 'include/yorel/yomm2/detail/compiler.hpp'

STUBS = r'''
#include "yv_compiler.h"
#define definition cdefinition

cdefinition g_specs[NC];
definition_info g_infos[NC];
#define IDX(p) ((size_t)((p) - g_specs))
#define IN_SPECS(p) (__CPROVER_same_object((p), g_specs) && \
     __CPROVER_POINTER_OFFSET(p) % sizeof(cdefinition) == 0 && \
     (size_t)__CPROVER_POINTER_OFFSET(p) < NC * sizeof(cdefinition))

_Bool __CPROVER_uninterpreted_dom(size_t i, size_t j);
_Bool __CPROVER_uninterpreted_isbase(size_t i, size_t j);
#define DOM(i, j) __CPROVER_uninterpreted_dom((i), (j))
#define ISBASE(i, j) __CPROVER_uninterpreted_isbase((i), (j))

/* contract stub of compiler::is_base (proved in units/specificity): pure */
static bool is_base(const cdefinition *a, const cdefinition *b)
{
    __CPROVER_assert(IN_SPECS(a) && IN_SPECS(b), "is_base precondition: both arguments are definitions of the method");
    return ISBASE(IDX(a), IDX(b));
}

size_t g_best_calls;
/* contract stub of compiler::best: any result satisfying P1-P4 (units/best.py) */
static vec_defp best(vec_defp *c)
{
    vec_defp r;
    ++g_best_calls;
    __CPROVER_assert(c->n <= NC, "best precondition: candidates fit");
    size_t rn = nondet_size_t();
    __CPROVER_assume(rn <= c->n);
    r.n = rn;
    for (size_t i = 0; i < NC + 1; ++i) {
        size_t pick = nondet_size_t();
        __CPROVER_assume(pick < NC);
        r.data[i] = (i < rn && pick < c->n) ? c->data[pick] : (const cdefinition *)0;
        if (i < rn) __CPROVER_assume(pick < c->n);                 /* P4 member */
        for (size_t j = 0; j < NC + 1; ++j)
            if (j < i && i < rn) __CPROVER_assume(r.data[j] != r.data[i]);   /* P4 distinct */
    }
    __CPROVER_assume((rn == 0) == (c->n == 0));                    /* P3 */
    for (size_t j = 0; j < NC; ++j) {                               /* P1 */
        if (rn == 1 && j < c->n && c->data[j] != r.data[0])
            __CPROVER_assume(DOM(IDX(r.data[0]), IDX(c->data[j])));
    }
    for (size_t d = 0; d < NC; ++d) {                               /* P2 */
        if (d < c->n) {
            _Bool all = 1;
            for (size_t j = 0; j < NC; ++j)
                if (j < c->n && j != d && !DOM(IDX(c->data[d]), IDX(c->data[j]))) all = 0;
            if (all) __CPROVER_assume(rn == 1 && r.data[0] == c->data[d]);
        }
    }
    return r;
}

static void assume_dom_lemmas(void)
{
    for (size_t i = 0; i < NC; ++i)
        for (size_t j = 0; j < NC; ++j)
            __CPROVER_assume(!(DOM(i, j) && DOM(j, i)));
}
'''

# ----------------------------------------------------------------------- next
NEXT_HARNESS = r'''
cmethod g_m;
method_info g_minfo;
void *g_next[NC];            /* the definitions' next variables */
void *w_next_before[NC]; void *w_next_after[NC]; _Bool w_has_next[NC];
_Bool w_isbase[NC][NC]; _Bool w_dom[NC][NC]; size_t w_ns;

static void next_fragment(cmethod *m_p)
{
#define m (*m_p)
@BODY@
#undef m
}

void h_next(void)
{
    size_t ns = nondet_size_t();
    __CPROVER_assume(ns <= NC);
    w_ns = ns;
    g_m.info = &g_minfo;
    g_minfo.ambiguous = (void *)nondet_uintptr();
    g_minfo.not_implemented = (void *)nondet_uintptr();
    g_m.specs.data = g_specs; g_m.specs.n = ns;
    for (size_t i = 0; i < NC; ++i) {
        g_specs[i].info = &g_infos[i];
        g_infos[i].pf = (void *)nondet_uintptr();
        w_has_next[i] = nondet_bool();
        g_infos[i].next = w_has_next[i] ? &g_next[i] : (void **)0;
        g_next[i] = (void *)nondet_uintptr();      /* stale value from an earlier update */
        w_next_before[i] = g_next[i];
    }
    assume_dom_lemmas();
    for (size_t i = 0; i < NC; ++i)
        for (size_t j = 0; j < NC; ++j) { w_isbase[i][j] = ISBASE(i, j); w_dom[i][j] = DOM(i, j); }
    void *amb = g_minfo.ambiguous, *nimp = g_minfo.not_implemented;

    next_fragment(&g_m);

    for (size_t i = 0; i < NC; ++i) w_next_after[i] = g_next[i];
    for (size_t D = 0; D < NC; ++D) {
        if (D < ns) {
            /* candidates: definitions strictly more general than D */
            size_t ncand = 0; size_t winner = NC;
            for (size_t e = 0; e < NC; ++e) {
                if (e < ns && ISBASE(e, D)) {
                    ++ncand;
                    _Bool all = 1;
                    for (size_t f = 0; f < NC; ++f)
                        if (f < ns && f != e && ISBASE(f, D) && !DOM(e, f)) all = 0;
                    if (all) winner = e;
                }
            }
            if (w_has_next[D]) {
                if (ncand == 0)
                    __CPROVER_assert(g_next[D] == nimp, "C03 no strictly more general definition: next is the not-implemented error");
                else if (winner < NC)
                    __CPROVER_assert(g_next[D] == g_infos[winner].pf, "C03 next is the definition more specific than every other strictly more general one");
                else
                    __CPROVER_assert(g_next[D] == amb, "C03 several strictly more general definitions, none most specific: next is the ambiguity error");
            } else {
                __CPROVER_assert(g_next[D] == w_next_before[D], "frame: a definition without next variable is left alone");
            }
        } else if (D < NC) {
            __CPROVER_assert(g_next[D] == w_next_before[D], "frame: variables of other definitions untouched");
        }
    }
    __CPROVER_assert(g_minfo.ambiguous == amb && g_minfo.not_implemented == nimp, "frame: method info untouched");
    YV_COVER(ns == NC, "NC definitions");
    YV_COVER(ns >= 2 && w_has_next[1] && g_next[1] == g_infos[0].pf && g_infos[0].pf != nimp && g_infos[0].pf != amb, "next is a definition");
    YV_COVER(ns >= 3 && w_has_next[2] && g_next[2] == amb && amb != nimp, "next is ambiguous");
    YV_COVER(ns >= 1 && w_has_next[0] && g_next[0] == nimp, "next is not-implemented");
}
'''

NEXT_RULES = [
    X.drop_trace,
    X.vector_locals(r'const\s+definition\s*\*', 'vec_defp', 2),
    X.Rule('std::transform(address-of) -> loop',
           r'std::transform\(\s*([\w.]+)\.begin\(\),\s*\1\.end\(\),\s*std::back_inserter\((\w+)\),\s*'
           r'\[\]\(const definition&\s*(\w+)\)\s*\{\s*return\s+&\3;\s*\}\s*\);',
           r'for (size_t yv_t = 0; yv_t < VEC_SIZE(\1); ++yv_t) vec_defp_push_back(&\2, &\1.data[yv_t]);', 1, 1),
    X.range_for_by_ref('cdefinition', 1),
    X.Rule('std::copy_if(predicate) -> loop',
           r'std::copy_if\(\s*(\w+)\.begin\(\),\s*\1\.end\(\),\s*std::back_inserter\((\w+)\),\s*'
           r'\[&(\w+)\]\(const definition\*\s*(\w+)\)\s*\{\s*return\s+([^;]+);\s*\}\s*\);',
           r'for (size_t yv_c = 0; yv_c < VEC_SIZE(\1); ++yv_c) { const cdefinition *\4 = \1.data[yv_c]; '
           r'if (\5) vec_defp_push_back(&\2, \4); }', 1, 1),
    X.Rule('auto x = best(v)', r'\bauto\s+(\w+)\s*=\s*best\((\w+)\);', r'vec_defp \1 = best(&\2);', 1, 1),
    X.Rule('vec.size()', r'\b(\w+)\.size\(\)', r'VEC_SIZE(\1)'),
    X.Rule('vec.front()', r'\b(\w+)\.front\(\)', r'(\1.data[0])'),
    X.Rule('vec.empty()', r'\b(\w+)\.empty\(\)', r'(VEC_SIZE(\1) == 0)'),
] + X.COMMON_RULES

# ----------------------------------------------------------------------- leaf
LEAF_HARNESS = r'''
cmethod g_m;
cgroup g_group;
int g_groups_dummy[4];
/* log of the recursive call */
size_t g_rec_calls; cmethod *g_rec_m; size_t g_rec_dim; const int *g_rec_iter;
const _Bool *g_rec_mask; _Bool g_rec_concrete;
static void build_dispatch_table_rec(cmethod *m, size_t dim, const int *group_iter,
                                     const _Bool *mask, _Bool concrete)
{
    ++g_rec_calls; g_rec_m = m; g_rec_dim = dim; g_rec_iter = group_iter;
    g_rec_mask = mask; g_rec_concrete = concrete;
}
_Bool w_mask[NC]; _Bool w_dom[NC][NC]; size_t w_ns, w_dim; _Bool w_concrete, w_group_concrete;
size_t w_cell;   /* 0..NC-1 definition, NC ambiguous, NC+1 not implemented, 99 other */

static void leaf_fragment(cmethod *m_p, size_t dim, const int *group_iter,
                          const _Bool *mask, const cgroup *group_p, _Bool concrete)
{
#define m (*m_p)
#define group (*group_p)
@BODY@
#undef m
#undef group
}

void h_leaf(void)
{
    size_t ns = nondet_size_t();
    __CPROVER_assume(ns <= NC);
    w_ns = ns;
    g_m.specs.data = g_specs; g_m.specs.n = ns;
    _Bool mask[NC];
    for (size_t i = 0; i < NC; ++i) { mask[i] = nondet_bool(); w_mask[i] = mask[i]; }
    size_t dim = nondet_size_t(); w_dim = dim;
    _Bool concrete = nondet_bool(); w_concrete = concrete;
    g_group.has_concrete_classes = nondet_bool(); w_group_concrete = g_group.has_concrete_classes;
    update_method_report before;
    before.cells = nondet_size_t(); before.concrete_cells = nondet_size_t();
    before.not_implemented = nondet_size_t(); before.concrete_not_implemented = nondet_size_t();
    before.ambiguous = nondet_size_t(); before.concrete_ambiguous = nondet_size_t();
    g_m.report = before;
    size_t n0 = nondet_size_t();
    __CPROVER_assume(n0 < NC);
    g_m.dispatch_table.n = n0;
    const cdefinition *old0 = g_m.dispatch_table.data[0];
    assume_dom_lemmas();
    for (size_t i = 0; i < NC; ++i)
        for (size_t j = 0; j < NC; ++j) w_dom[i][j] = DOM(i, j);

    leaf_fragment(&g_m, dim, &g_groups_dummy[2], mask, &g_group, concrete);

    const update_method_report *r = &g_m.report;
    _Bool all_concrete = concrete && g_group.has_concrete_classes;
    if (dim == 0) {
        size_t napp = 0; size_t winner = NC;
        for (size_t e = 0; e < NC; ++e) {
            if (e < ns && mask[e]) {
                ++napp;
                _Bool all = 1;
                for (size_t f = 0; f < NC; ++f)
                    if (f < ns && f != e && mask[f] && !DOM(e, f)) all = 0;
                if (all) winner = e;
            }
        }
        __CPROVER_assert(g_m.dispatch_table.n == n0 + 1, "exactly one cell is appended");
        const cdefinition *cell = g_m.dispatch_table.data[n0];
        w_cell = cell == &g_m.ambiguous ? NC : cell == &g_m.not_implemented ? NC + 1 :
                 IN_SPECS(cell) ? IDX(cell) : 99;
        if (n0 > 0) __CPROVER_assert(g_m.dispatch_table.data[0] == old0, "earlier cells are untouched");
        __CPROVER_assert(g_rec_calls == 0, "no recursion at dimension 0");
        __CPROVER_assert(r->cells == before.cells && r->concrete_cells == before.concrete_cells, "cell totals are not touched here");
        if (napp == 0) {
            __CPROVER_assert(cell == &g_m.not_implemented, "C02 no applicable definition: the cell is the method's not-implemented entry");
            __CPROVER_assert(r->not_implemented == before.not_implemented + 1, "C17 a gap is counted");
            __CPROVER_assert(r->concrete_not_implemented == before.concrete_not_implemented + (all_concrete ? 1 : 0),
                             "C17 concrete gap counted iff every dimension's group has a concrete class");
            __CPROVER_assert(r->ambiguous == before.ambiguous && r->concrete_ambiguous == before.concrete_ambiguous, "C17 no ambiguity counted for a gap");
        } else if (winner < NC) {
            __CPROVER_assert(cell == &g_specs[winner], "C01 the cell is the definition more specific than every other applicable one");
            __CPROVER_assert(r->not_implemented == before.not_implemented && r->concrete_not_implemented == before.concrete_not_implemented &&
                             r->ambiguous == before.ambiguous && r->concrete_ambiguous == before.concrete_ambiguous,
                             "C17 nothing counted for a resolved cell");
        } else {
            __CPROVER_assert(cell == &g_m.ambiguous, "C02 applicable definitions but none most specific: the cell is the method's ambiguous entry");
            __CPROVER_assert(r->ambiguous == before.ambiguous + 1, "C17 an ambiguity is counted");
            __CPROVER_assert(r->concrete_ambiguous == before.concrete_ambiguous + (all_concrete ? 1 : 0),
                             "C17 concrete ambiguity counted iff every dimension's group has a concrete class");
            __CPROVER_assert(r->not_implemented == before.not_implemented && r->concrete_not_implemented == before.concrete_not_implemented, "C17 no gap counted for an ambiguity");
        }
    } else {
        __CPROVER_assert(g_rec_calls == 1, "exactly one recursive call per group above dimension 0");
        __CPROVER_assert(g_rec_m == &g_m && g_rec_dim == dim - 1 && g_rec_iter == &g_groups_dummy[1] && g_rec_mask == mask,
                         "recursion goes to the previous dimension with the narrowed mask");
        __CPROVER_assert(g_rec_concrete == all_concrete, "C17 the concrete flag carries this group's concreteness down");
        __CPROVER_assert(g_m.dispatch_table.n == n0, "no cell appended above dimension 0");
        __CPROVER_assert(r->not_implemented == before.not_implemented && r->ambiguous == before.ambiguous &&
                         r->concrete_not_implemented == before.concrete_not_implemented && r->concrete_ambiguous == before.concrete_ambiguous,
                         "no counter touched above dimension 0");
    }
    YV_COVER(dim == 0 && w_cell == NC, "ambiguous cell");
    YV_COVER(dim == 0 && w_cell == NC + 1 && ns == NC, "gap with NC definitions");
    YV_COVER(dim == 0 && w_cell == NC - 1, "last definition wins");
    YV_COVER(dim != 0, "recursion");
}
'''

LEAF_RULES = [
    X.drop_trace,
    X.vector_locals(r'const\s+definition\s*\*', 'vec_defp', 1),
    X.range_for_by_ref('cdefinition', 1),
    X.Rule('auto x = best(v)', r'\bauto\s+(\w+)\s*=\s*best\((\w+)\);', r'vec_defp \1 = best(&\2);', 1, 1),
    X.Rule('result[0]', r'\bspecs\[0\]', r'specs.data[0]', 1, 1),
    X.split_auto_declarators,
    X.Rule('vec.push_back', r'\b(\w+(?:\.\w+)*)\.push_back\(', r'vec_defp_push_back(&\1, '),
    X.Rule('vec.size()', r'\b(\w+)\.size\(\)', r'VEC_SIZE(\1)'),
    X.Rule('vec.empty()', r'\b(\w+)\.empty\(\)', r'(VEC_SIZE(\1) == 0)'),
    X.Rule('recursive call', r'\bbuild_dispatch_table\(\s*m\s*,', r'build_dispatch_table_rec(&m,', 1, 1),
] + X.COMMON_RULES

# ----------------------------------------------------------------------- accumulate
ACC = r'''
#include "yv_compiler.h"
typedef update_method_report update_report;   /* struct update_report : update_method_report {} */

@HEADER@
__CPROVER_requires(__CPROVER_is_fresh(partial_p, sizeof(*partial_p)) && __CPROVER_is_fresh(total_p, sizeof(*total_p)))
__CPROVER_assigns(*total_p)
/* C17: cell counts add up; each flag counts the methods whose counter is non-zero */
__CPROVER_ensures(total_p->cells == __CPROVER_old(total_p->cells) + partial_p->cells)
__CPROVER_ensures(total_p->concrete_cells == __CPROVER_old(total_p->concrete_cells) + partial_p->concrete_cells)
__CPROVER_ensures(total_p->not_implemented == __CPROVER_old(total_p->not_implemented) + (partial_p->not_implemented != 0 ? 1 : 0))
__CPROVER_ensures(total_p->concrete_not_implemented == __CPROVER_old(total_p->concrete_not_implemented) + (partial_p->concrete_not_implemented != 0 ? 1 : 0))
__CPROVER_ensures(total_p->ambiguous == __CPROVER_old(total_p->ambiguous) + (partial_p->ambiguous != 0 ? 1 : 0))
__CPROVER_ensures(total_p->concrete_ambiguous == __CPROVER_old(total_p->concrete_ambiguous) + (partial_p->concrete_ambiguous != 0 ? 1 : 0))
{
#define partial (*partial_p)
#define total (*total_p)
@BODY@
#undef partial
#undef total
}

void h_accumulate(void)
{
    const update_method_report *p; update_report *t;
    accumulate(p, t);
    YV_COVER(t->not_implemented == 7 && p->not_implemented == 3, "flag incremented");
    YV_COVER(p->ambiguous == 0, "flag kept");
}
'''


def check_clean(name, body):
    left = re.sub(r'__auto_type', '', body)
    if re.search(r'\bauto\b|std::|\.begin\(|\.end\(|\[&|\[\]\s*\(', left):
        raise X.ExtractionBroken('%s: untranslated C++ left in fragment' % name)


def make_next():
    ex = X.fragment_in_function(
        REL, r'template<class Policy>\s*void\s+compiler<Policy>::build_dispatch_tables\s*\(\s*\)',
        r'std::vector<const definition\*>\s+specs\s*;', 'to-block',
        r'for\s*\(\s*auto&\s+spec\s*:\s*m\.specs\s*\)\s*\{')
    X.apply_rules(ex, NEXT_RULES)
    check_clean('next fragment', ex.body)
    return ex, STUBS + NEXT_HARNESS.replace('@BODY@', ex.body)


def make_leaf():
    ex = X.fragment_in_function(
        REL, r'template<class Policy>\s*void\s+compiler<Policy>::build_dispatch_table\s*\([^{;]*\)',
        r'if\s*\(\s*dim\s*==\s*0\s*\)\s*\{', 'if-else')
    X.apply_rules(ex, LEAF_RULES)
    check_clean('leaf fragment', ex.body)
    return ex, STUBS + LEAF_HARNESS.replace('@BODY@', ex.body)


def make_accumulate():
    ex = X.find_function(REL, r'inline\s+void\s+generic_compiler::accumulate\s*\([^)]*\)')
    h = X.norm_ws(ex.header)
    m = re.fullmatch(r'inline void generic_compiler::accumulate\( const update_method_report& (\w+), update_report& (\w+)\)', h)
    if not m or (m.group(1), m.group(2)) != ('partial', 'total'):
        raise X.ExtractionBroken('unexpected signature of accumulate: ' + h)
    X.apply_rules(ex, X.COMMON_RULES)
    hdr = 'void accumulate(const update_method_report *partial_p, update_report *total_p)'
    return ex, ACC.replace('@HEADER@', hdr).replace('@BODY@', ex.body)


TRUSTED = ['std::vector<const definition*> push_back / size / empty / front per [vector]',
           'std::transform / std::copy_if with back_inserter rewritten to their defining loops ([alg.transform], [alg.copy])',
           'range-for over std::vector<definition> as an index loop ([stmt.ranged])']


def jobs(tier):
    nc = 4 if tier == 'thorough' else 3
    out = []
    ex, c = make_next()
    out.append(Job(unit='fragments', config='next-nc%d' % nc, c_text=c, entry='h_next',
                   unwind=nc + 2, kind='bounded', defines=['NC=%d' % nc], object_bits=12,
                   bound='next selection: <= %d definitions per method, every is_base / more-specific relation' % nc,
                   min_obligations=20, min_cover=4,
                   functions=['%s compiler<Policy>::build_dispatch_tables [next selection fragment] sha256:%s' % (ex.where(), ex.sha())],
                   trusted=TRUSTED + ['best() and is_base() replaced by stubs that are their contracts (P1-P4; pure function)'],
                   assumptions=['more-specific relation irreflexive and asymmetric (lemma job specificity/dom-lemmas)'],
                   extracted=[ex], props=['C03', 'C07'], timeout=900))
    ex, c = make_leaf()
    out.append(Job(unit='fragments', config='leaf-nc%d' % nc, c_text=c, entry='h_leaf',
                   unwind=nc + 2, kind='bounded', defines=['NC=%d' % nc], object_bits=12,
                   bound='dispatch cell step: <= %d definitions per method, every applicability mask and more-specific relation' % nc,
                   min_obligations=20, min_cover=4,
                   functions=['%s compiler<Policy>::build_dispatch_table [dim == 0 step and recursive call] sha256:%s' % (ex.where(), ex.sha())],
                   trusted=TRUSTED + ['best() replaced by a stub that is its contract (P1-P4)',
                                      'dynamic_bitset mask[i] as a bool array element'],
                   assumptions=['more-specific relation irreflexive and asymmetric (lemma job specificity/dom-lemmas)'],
                   extracted=[ex], props=['C01', 'C02', 'C17'], timeout=900))
    ex, c = make_accumulate()
    out.append(Job(unit='fragments', config='accumulate', c_text=c, entry='h_accumulate',
                   enforce='accumulate', kind='proof', min_obligations=8, min_cover=2,
                   functions=['%s generic_compiler::accumulate sha256:%s' % (ex.where(), ex.sha())],
                   trusted=['references as non-null pointers'],
                   assumptions=['size_t counters wrap modulo 2^64 (as in C++)'],
                   extracted=[ex], props=['C17'], timeout=300))
    return out
