"""update<Policy>(), compiler<Policy>::update, compile and install_global_tables (core.hpp, compiler.hpp): the glue.

The unit contracts chain on each other: tables assumes the lattice of augment_classes, the methods of augment_methods
and the slots of assign_slots; install_gv assumes the tables; resolve_static_type_ids must come first (deferred ids).
Here the four small functions that sequence the phases are extracted, every phase call is replaced by a stub that IS
its frame ("appends its id to a log"), and CBMC checks the log: a fresh compiler object per update, the phases once
each in the order the contracts need, installation only after a completed compilation.  Loop-free: a proof.
"""
import re

from engine import extract as X
from engine.core import Job

TEXT = r'''
#include "yv.h"
enum { P_NEW = 1, P_RESOLVE, P_CLASSES, P_METHODS, P_SLOTS, P_TABLES, P_INSTALL };
int g_log[32]; size_t g_nlog;
_Bool compilation_done; int report;
static void phase(int p)
{
    __CPROVER_assert(g_nlog < 32, "harness: log capacity"); __CPROVER_assume(g_nlog < 32);
    if (p == P_INSTALL) __CPROVER_assert(compilation_done, "C07 the tables are installed only after a completed compilation of the current catalogs");
    g_log[g_nlog++] = p;
}
/* each phase replaced by its frame: it is called, once, at this point */
#define resolve_static_type_ids() phase(P_RESOLVE)
#define augment_classes() phase(P_CLASSES)
#define augment_methods() phase(P_METHODS)
#define assign_slots() phase(P_SLOTS)
#define build_dispatch_tables() phase(P_TABLES)
#define install_gv() phase(P_INSTALL)
/* a compiler object is constructed: its members start from their initialisers (compiler.hpp: compilation_done = false) */
static void compiler_ctor(void) { compilation_done = 0; phase(P_NEW); }
#define yv_abort() do { __CPROVER_assert(!compilation_done, "abort() only guards installation before compilation"); __CPROVER_assume(0); } while (0)

static void install_global_tables(void)
{
@INSTALL@
}
static int compile(void)
{
@COMPILE@
}
static void compiler_update(void)
{
@UPDATE@
}
static void yomm2_update(void)
{
@FREE_UPDATE@
}

static const int expect[7] = { P_NEW, P_RESOLVE, P_CLASSES, P_METHODS, P_SLOTS, P_TABLES, P_INSTALL };
void h_phases(void)
{
    g_nlog = 0; compilation_done = nondet_bool();          /* whatever an earlier update left behind */
    yomm2_update();
    __CPROVER_assert(g_nlog == 7, "C07 update runs every phase exactly once on a fresh compiler object");
    for (size_t i = 0; i < 7; ++i) __CPROVER_assert(g_log[i] == expect[i],
        "C07 update recompiles from the catalogs in the order the phase contracts chain on: fresh compiler, deferred ids, classes, methods, slots, tables, installation");
    yomm2_update();                                           /* again, with no change */
    __CPROVER_assert(g_nlog == 14, "C07 a second update runs the same phases again");
    for (size_t i = 0; i < 7; ++i) __CPROVER_assert(g_log[7 + i] == expect[i], "C07 a second update starts from a fresh compiler object and runs the same sequence");
    YV_COVER(g_nlog == 14, "two updates complete");
}
void h_install_guard(void)
{
    g_nlog = 0; compilation_done = 0;
    install_global_tables();
    __CPROVER_assert(0, "C07 install_global_tables does not return when no compilation was done");
}
'''

RULES = [
    X.drop_trace,
    X.Rule('print(report)', r'\bprint\(report\);', ''),
    X.Rule('abort()', r'\babort\(\)\s*;', 'yv_abort();'),
    X.Rule('return *this', r'\breturn\s+\*this\s*;', 'return;'),
    X.Rule('compilation_done = true', r'\bcompilation_done\s*=\s*true\b', 'compilation_done = 1'),
    X.Rule('compiler object', r'\bdetail::compiler<Policy>\s+compiler\s*;', 'compiler_ctor();'),
    X.Rule('compiler.update()', r'\bcompiler\.update\(\)', 'compiler_update()'),
    X.Rule('return compiler', r'\breturn\s+compiler\s*;', 'return;'),
    X.Rule('update() member call', r'(?<![\w.])update\(\)', 'compiler_update()'),
] + X.COMMON_RULES


def grab(rel, rx, occurrence=0):
    ex = X.find_function(rel, rx, occurrence)
    X.apply_rules(ex, RULES)
    if re.search(r'\bauto\b|std::|detail::|<<|\bthis\b', ex.body):
        raise X.ExtractionBroken('%s: untranslated C++ left: %s' % (ex.where(), ex.body.strip()[:200]))
    return ex


def jobs(tier):
    C = 'include/yorel/yomm2/detail/compiler.hpp'
    exi = grab(C, r'template<class Policy>\s*void\s+compiler<Policy>::install_global_tables\(\)')
    exc = grab(C, r'template<class Policy>\s*auto\s+compiler<Policy>::compile\(\)')
    exu = grab(C, r'template<class Policy>\s*auto\s+compiler<Policy>::update\(\)')
    exf = grab('include/yorel/yomm2/core.hpp', r'template<class Policy>\s*auto\s+update\(\)\s*->\s*typename\s+detail::compiler<Policy>')
    c = (TEXT.replace('@INSTALL@', exi.body).replace('@COMPILE@', exc.body).replace('@UPDATE@', exu.body).replace('@FREE_UPDATE@', exf.body))
    funcs = ['%s %s sha256:%s' % (e.where(), n, e.sha()) for e, n in ((exf, 'update<Policy>()'), (exu, 'compiler<Policy>::update'), (exc, 'compiler<Policy>::compile'),
                                                                    (exi, 'compiler<Policy>::install_global_tables'))]
    common = dict(c_text=c, kind='proof', functions=funcs, extracted=[exi, exc, exu, exf], props=['C07', 'C01', 'C06'], timeout=120,
                  trusted=['each phase (resolve_static_type_ids, augment_classes, augment_methods, assign_slots, build_dispatch_tables, install_gv) replaced by a stub that logs the call: '
                           'their own contracts are the other units', 'construction of a compiler object = its member initialisers (compilation_done = false)'],
                  assumptions=['the compiler object is a local of update<Policy>() (checked: the extracted body constructs it)'])
    return [Job(unit='phases', config='update-sequence', entry='h_phases', min_obligations=5, min_cover=1, **common),
            Job(unit='phases', config='install-guard', entry='h_install_guard', min_obligations=2, min_cover=0, expect_fail=False, **common)]
