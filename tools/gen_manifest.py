#!/usr/bin/env python3
"""Writes /verif/MANIFEST.json from props.py (single source of truth)."""
import json
import os
import subprocess
import sys

ROOT = os.path.dirname(os.path.dirname(os.path.abspath(__file__)))
sys.path.insert(0, ROOT)
import props  # noqa: E402

ALL = ['C%02d' % i for i in range(1, 21)]

checks = []
for pid in ALL:
    if pid not in props.PROPS:
        continue
    sp = props.PROPS[pid]
    checks.append({
        'property_id': pid,
        'quick_cmd': 'bin/check %s --tier quick' % pid,
        'thorough_cmd': 'bin/check %s --tier thorough' % pid,
        'evidence_file': '/verif/evidence/%s.json' % pid,
        'replay_cmd_template': 'bin/check %s --replay {path}' % pid,
        'engine': 'yv-contracts',
        'level_claimed': {
            'category': sp.get('level', 'proof'),
            'text': sp['level_text'],
            'design_ref': sp.get('design_ref', 'DESIGN.md section 6'),
        },
        'level_note': sp['level_note'],
        'technique': sp['technique'],
    })

na = []
for pid in ALL:
    if pid in props.PROPS:
        continue
    na.append({'property_id': pid, 'reason': props.NOT_APPLICABLE.get(
        pid, 'check not built yet (planned in DESIGN.md section 6); not claimed')})

fix_commits = subprocess.run(['git', '-C', '/repo', 'log', '--format=%h %s', '--grep=^fix:'],
                             stdout=subprocess.PIPE).stdout.decode().strip().split('\n')

man = {
    'version': 1,
    'setup_cmd': 'true',
    'hooks': {
        'guard': 'YOMM2_VERIF',
        'enable': 'none needed: the checks extract the function bodies from /repo/include on every run; '
                  'no source hook exists (the guard name is reserved)',
        'baseline_off_cmd': 'cmake --build /repo/_build && ctest --test-dir /repo/_build -j8 --timeout 900',
        'source_commits': [],
        'add_only': True,
    },
    'engines': [{
        'name': 'yv-contracts',
        'path': 'bin/check',
        'serves_properties': [c['property_id'] for c in checks],
        'kind_free_text': 'contract-based deductive verification: function bodies are extracted mechanically from '
                          '/repo/include on every run, rewritten to C by listed rules, woven with function / loop '
                          'contracts and ghost state, and discharged by goto-instrument --dfcc + cbmc 6.11 (SAT); '
                          'bounded (unwound) units are labelled bounded and counted separately',
    }],
    'checks': checks,
    'not_applicable': na,
    'notes': 'exit 0 = every obligation discharged; exit 1 + VIOLATION = a named obligation fails on the extracted real code '
             '(replayed against the real C++ where a driver exists); exit 2 = undecided (extraction broken, timeout, tool error) - '
             'never reported as a violation. Genuine defects repaired in /repo: ' + '; '.join(fix_commits),
}
with open(os.path.join(ROOT, 'MANIFEST.json'), 'w') as f:
    json.dump(man, f, indent=1)
print('MANIFEST.json: %d checks, %d not applicable' % (len(checks), len(na)))
