#!/bin/bash
# confirm_seed.sh <seed-dir>   (seed-dir holds patch.diff, demo.cpp, demo_cmd.txt)
# Confirms in a scratch worktree of /repo HEAD: demo passes on the pristine tree,
# fails with the patch, and the repository's test-suite still passes with it.
set -u
SD=$(readlink -f "$1"); NAME=$(basename "$SD")
WT=/tmp/cs_$NAME
LOG=$SD/confirm.log
: > "$LOG"
git -C /repo worktree remove --force "$WT" >/dev/null 2>&1
git -C /repo worktree add --detach "$WT" HEAD >/dev/null 2>&1 || { echo "worktree failed" >>"$LOG"; exit 2; }
FLAGS=$(cat "$SD/demo_flags.txt" 2>/dev/null)
run_demo() {
  if [ -x "$SD/run_demo.sh" ]; then ( cd "$WT" && "$SD/run_demo.sh" "$WT/include" "$SD" >>"$LOG" 2>&1 ); return $?; fi
  g++ -std=c++17 $FLAGS -I "$WT/include" "$SD/demo.cpp" -o "$WT/demo_bin" >>"$LOG" 2>&1 || return 99
  ( cd "$WT" && timeout 120 ./demo_bin >>"$LOG" 2>&1 ); return $?
}
echo "== demo on pristine tree ($(git -C /repo rev-parse --short HEAD))" >>"$LOG"
run_demo; R0=$?; echo "exit=$R0" >>"$LOG"
echo "== apply patch" >>"$LOG"
git -C "$WT" apply "$SD/patch.diff" >>"$LOG" 2>&1; RA=$?; echo "apply=$RA" >>"$LOG"
echo "== demo with patch" >>"$LOG"
run_demo; R1=$?; echo "exit=$R1" >>"$LOG"
echo "== test-suite with patch" >>"$LOG"
( cd "$WT" && cmake -G Ninja -B _build -S . -DCMAKE_BUILD_TYPE=RelWithDebInfo -DYOMM2_ENABLE_TESTS=ON -DCMAKE_CXX_FLAGS=-Wno-error >/dev/null 2>&1 && cmake --build _build -j${JOBS:-8} >/dev/null 2>&1; echo "build=$?" >>"$LOG"; ctest --test-dir _build -j8 2>&1 | tail -3 >>"$LOG" )
grep -q "100% tests passed" "$LOG"; RT=$?
git -C /repo worktree remove --force "$WT" >/dev/null 2>&1
rm -rf "$WT"
if [ $R0 -eq 0 ] && [ $RA -eq 0 ] && [ $R1 -ne 0 ] && [ $R1 -ne 99 ] && [ $RT -eq 0 ]; then echo "CONFIRMED $NAME" | tee -a "$LOG"; exit 0; else echo "NOT-CONFIRMED $NAME pristine=$R0 apply=$RA patched=$R1 tests=$RT" | tee -a "$LOG"; exit 1; fi
