#!/bin/bash
# every seeded change against the check of the property it breaks (scratch worktrees; /repo is not touched)
cd /verif/seeded
for d in *; do
  [ -f $d/patch.diff ] || continue
  prop=$(python3 -c "import json;print(json.load(open('$d/meta.json'))['breaks_property'])")
  /verif/tools/seed_matrix.sh $d $prop
done
