#!/bin/bash
# seed_matrix.sh <seed> <check-id>...   : apply the seed to a scratch worktree of /repo HEAD and run the given
# checks (quick tier) against it; prints one line per check: <seed> <check> exit=<rc> <first failing obligation>
SD=/verif/seeded/$1; shift
WT=/tmp/sm_$(basename $SD)
git -C /repo worktree remove --force $WT >/dev/null 2>&1
git -C /repo worktree add --detach $WT HEAD >/dev/null 2>&1 || exit 2
if ! git -C $WT apply $SD/patch.diff 2>/dev/null; then echo "$(basename $SD) PATCH-DOES-NOT-APPLY"; git -C /repo worktree remove --force $WT; exit 3; fi
export YV_REPO=$WT YV_WORK=/tmp/sm_work_$(basename $SD) YV_EVIDENCE=/tmp/sm_work_$(basename $SD)/evidence YV_REPLAYS=/tmp/sm_work_$(basename $SD)/replays YV_JOBS=${YV_JOBS:-8} YV_CACHE_DIR=/verif/.work/cache
for c in "$@"; do
  out=$(cd /verif && python3 bin/check $c --tier quick 2>&1); rc=$?
  first=$(echo "$out" | grep -m1 "FAILED-OBLIGATION" | sed 's/FAILED-OBLIGATION property=[^ ]* //' | cut -c1-220)
  rep=$(echo "$out" | grep -c "REPRODUCED on real code")
  und=$(echo "$out" | grep -m1 -E "EXTRACTION-BROKEN|UNDECIDED" | cut -c1-200)
  echo "$(basename $SD) check=$c exit=$rc reproduced_on_real_code=$rep :: $first $und"
done
git -C /repo worktree remove --force $WT >/dev/null 2>&1; rm -rf /tmp/sm_work_$(basename $SD)
